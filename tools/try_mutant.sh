#!/bin/bash
# usage: tools/try_mutant.sh <patch.diff> <property> [budget_s] [seed-id]
# Applies a seeded change to a scratch copy of /repo's working tree (never to /repo itself) and runs the property's
# quick check against the copy, using the COMMITTED state of /verif (git archive HEAD: edits in progress in the working
# tree cannot disturb a queue of runs), its own build, evidence and replay directories. Prints the verdict and removes
# the copy. With a seed-id the verdict (exit code, violation classes, replay file) is recorded in seeded/<seed-id>/.
set -u
PATCH=$(readlink -f "$1"); PROP=$2; BUDGET=${3:-40}; SID=${4:-}
S=/dev/shm/mut_$$; mkdir -p $S $S/replays $S/verif
rsync -a --exclude _build --exclude .git /repo/ $S/repo/
if ! (cd $S/repo && patch -p1 --no-backup-if-mismatch < "$PATCH" > $S/patch.log 2>&1); then echo "PATCH DOES NOT APPLY"; cat $S/patch.log; rm -rf $S; exit 3; fi
git -C /verif archive HEAD sim vcheck.py checks.py known_findings.txt | tar -x -C $S/verif
mkdir -p $S/build
for v in $(ls /verif/build); do cp -a /verif/build/$v $S/build/; done
find $S/build -name '*.d' | xargs sed -i -e "s# /repo/# $S/repo/#g" -e "s#^/verif/build/#$S/build/#" -e "s# /verif/sim/# $S/verif/sim/#g"
cd $S/verif && VERIF_EVIDENCE_DIR=$S/evidence VERIF_REPLAY_DIR=$S/replays VERIF_REPO=$S/repo VERIF_BUILD=$S/build VERIF_BUDGET_S=$BUDGET python3 vcheck.py $PROP --tier quick > $S/out.log 2>&1
RC=$?
grep -v "^build ok" $S/out.log | cut -c1-400 | tail -12
echo "exit=$RC"
rm -rf /dev/shm/mut_last; mkdir -p /dev/shm/mut_last; cp -f $S/replays/* /dev/shm/mut_last/ 2>/dev/null
if [ -n "$SID" ] && [ -d /verif/seeded/$SID ]; then
  python3 - "$SID" "$PROP" "$RC" "$S" "$BUDGET" <<'PY'
import sys, json, re, os, shutil, glob
sid, prop, rc, S, budget = sys.argv[1:6]; rc = int(rc)
out = open(os.path.join(S, "out.log"), errors="replace").read()
classes = re.findall(r"violation class ([^:\n]+): ([^\n]{0,300})", out)
summary = (re.findall(r"^%s quick: .*$" % prop, out, re.M) or [""])[-1]
p = "/verif/seeded/%s/meta.json" % sid; m = json.load(open(p)); d = [x for x in (m.get("detected_by") or []) if x.get("check") != prop]
ent = {"check": prop, "command": "tools/try_mutant.sh seeded/%s/patch.diff %s %s" % (sid, prop, budget), "exit": rc,
       "result": "detected" if rc == 1 else ("not detected" if rc == 0 else "harness problem"),
       "violation_classes": [{"clause": c, "detail": t} for c, t in classes[:6]], "summary": summary}
reps = sorted(glob.glob(os.path.join(S, "replays", "*.json")))
if rc == 1 and reps:
    dst = "/verif/seeded/%s/detected-%s.replay.json" % (sid, prop); shutil.copy(reps[0], dst); ent["replay"] = os.path.basename(dst)
d.append(ent); m["detected_by"] = d; json.dump(m, open(p, "w"), indent=1)
PY
fi
rm -rf $S
exit $RC
