#!/bin/bash
# usage: tools/try_mutant.sh <patch.diff> <property> [budget_s] [variants...]
# Applies a seeded change to a scratch copy of /repo's working tree (never to /repo itself),
# runs the property's check against the copy, prints its verdict, removes the copy.
set -u
PATCH=$(readlink -f "$1"); PROP=$2; BUDGET=${3:-40}
S=/dev/shm/mut_$$; mkdir -p $S; rm -rf /dev/shm/mut_last; mkdir -p /dev/shm/mut_last
rsync -a --exclude _build --exclude .git /repo/ $S/repo/
if ! (cd $S/repo && patch -p1 --no-backup-if-mismatch < "$PATCH" > $S/patch.log 2>&1); then echo "PATCH DOES NOT APPLY"; cat $S/patch.log; rm -rf $S; exit 3; fi
mkdir -p $S/build
for v in $(ls /verif/build); do cp -a /verif/build/$v $S/build/; done
find $S/build -name '*.d' | xargs sed -i "s#/repo/#$S/repo/#g"
cd /verif && VERIF_EVIDENCE_DIR=$S/evidence VERIF_REPLAY_DIR=/dev/shm/mut_last VERIF_REPO=$S/repo VERIF_BUILD=$S/build VERIF_BUDGET_S=$BUDGET python3 vcheck.py $PROP --tier quick 2>&1 | grep -v "^build ok" | cut -c1-400 | tail -12
echo "exit=${PIPESTATUS[0]}"
rm -rf $S
