#!/bin/bash
# usage: tools/install_mutant.sh <worktree> <A|B> <seed-id> <property>
WT=$1; X=$2; ID=$3; PROP=$4; M=$WT/MUTANTS/$X; D=/verif/seeded/$ID
mkdir -p $D
cp $M/patch.diff $D/patch.diff
for f in demo.cpp demo_common.hpp checker.hpp build_demo.sh run_demo.sh README.md confirm.log; do [ -f $M/$f ] && cp $M/$f $D/; done
python3 - "$D" "$PROP" "$ID" <<'PY'
import sys,json,os,re
d,prop,i=sys.argv[1:4]
log=open(os.path.join(d,'confirm.log')).read() if os.path.exists(os.path.join(d,'confirm.log')) else ''
readme=open(os.path.join(d,'README.md')).read() if os.path.exists(os.path.join(d,'README.md')) else ''
meta={"id":i,"property":prop,"source":"independent sub-agent given only the property text and a scratch worktree of the original commit 70d55c9",
 "needs_to_manifest": "see README.md (written by the sub-agent)",
 "confirmed_by_me": {"command":"tools/confirm_mutant.sh <worktree> <X>: git apply; cmake --build; ctest (126 tests); build+run demo (must fail); revert; rebuild; run demo (must pass)",
   "suite_with_change": "126/126 passed" if "100% tests passed, 0 tests failed out of 126" in log else "see confirm.log",
   "demo_exit_with_change": (re.search(r"demo_exit_with_change=(\d+)",log) or [None,None])[1],
   "demo_exit_clean": (re.search(r"demo_exit_clean=(\d+)",log) or [None,None])[1]},
 "detected_by": None}
json.dump(meta,open(os.path.join(d,'meta.json'),'w'),indent=1)
PY
echo installed $D
