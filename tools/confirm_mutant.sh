#!/bin/bash
# usage: tools/confirm_mutant.sh <worktree> <A|B>   -> confirms a seeded change in its scratch worktree:
# applies, builds, runs the whole existing suite, runs the demo (must fail), reverts, rebuilds, runs the demo (must pass).
WT=$1; X=$2; M=$WT/MUTANTS/$X; LOG=$M/confirm.log
cd $WT || exit 2
git checkout -q -- src include main.cpp 2>/dev/null
{
echo "== apply"; git apply $M/patch.diff || { echo "APPLY FAILED"; exit 3; }
echo "== build with change"; cmake --build _build -j 8 2>&1 | tail -2
echo "== ctest with change"; ctest --test-dir _build -j8 --timeout 900 2>&1 | tail -3
echo "== demo with change"; bash $M/build_demo.sh > $M/build_demo.out 2>&1; if [ -f $M/run_demo.sh ]; then timeout 300 bash $M/run_demo.sh; else timeout 300 $M/demo; fi > $M/demo_mut.out 2>&1; echo "demo_exit_with_change=$?"; tail -3 $M/demo_mut.out
echo "== revert"; git checkout -q -- src include main.cpp; cmake --build _build -j 8 2>&1 | tail -1
echo "== demo clean"; bash $M/build_demo.sh > $M/build_demo.out 2>&1; if [ -f $M/run_demo.sh ]; then timeout 300 bash $M/run_demo.sh; else timeout 300 $M/demo; fi > $M/demo_clean.out 2>&1; echo "demo_exit_clean=$?"; tail -3 $M/demo_clean.out
} > $LOG 2>&1
grep -E "tests passed|demo_exit|APPLY" $LOG | tr '\n' ' '; echo
