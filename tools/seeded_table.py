#!/usr/bin/env python3
"""Prints the markdown table of DESIGN.md section 14 from seeded/*/meta.json and README.md (first heading)."""
import json, glob, os, re
rows = []
for d in sorted(glob.glob("/verif/seeded/*")):
    m = json.load(open(os.path.join(d, "meta.json")))
    title = ""
    rp = os.path.join(d, "README.md")
    if os.path.exists(rp):
        for line in open(rp):
            if line.startswith("#"):
                title = re.sub(r"^#+\s*", "", line).strip(); title = re.sub(r"^(Seeded change|Mutant)\s+[A-C]\s*(\(BONUS[^)]*\))?\s*[-:—–]+\s*", "", title); break
    det = m.get("detected_by") or []
    cells = []
    for e in det:
        if "exit" in e:
            cl = ", ".join(sorted(set(v["clause"] for v in e.get("violation_classes", []))))[:110]
            cells.append("%s: %s%s" % (e["check"], e["result"], (" (" + cl + ")") if cl else ""))
        else:
            cells.append("%s: %s %s" % (e.get("check"), e.get("result"), e.get("note", "")))
    rows.append("| %s | %s | %s |" % (m["id"] + (" (adapted)" if os.path.exists(os.path.join(d, "patch.adapted.diff")) else ""), title[:120], "; ".join(cells) or "not run"))
print("| seeded change | what it does | verdict of the property's quick check (60 s budget) |\n|---|---|---|")
print("\n".join(rows))
