#!/usr/bin/env python3
"""usage: tools/mark_detected.py <seed-id> <check-id> <yes|no|adapted> <free text> -> updates seeded/<id>/meta.json"""
import sys, json
i, chk, res, text = sys.argv[1], sys.argv[2], sys.argv[3], " ".join(sys.argv[4:])
p = "/verif/seeded/%s/meta.json" % i
m = json.load(open(p)); d = m.get("detected_by") or []
d = [x for x in d if x["check"] != chk]; d.append({"check": chk, "result": res, "note": text}); m["detected_by"] = d
json.dump(m, open(p, "w"), indent=1)
