#!/bin/bash
# usage: tools/process_round2.sh confirm <property>   -> confirms the round-2 changes A,B of the sub-agent in its scratch worktree
#                                                        /tmp/wt2_<property>, installs them as seeded/<property>-C and -D, removes the worktree
#        tools/process_round2.sh try <property>       -> runs the property's quick check against seeded/<property>-C and -D
MODE=$1; P=$2; WT=${WTPFX:-/tmp/wt2_}$P; L1=${LET1:-C}; L2=${LET2:-D}
cd /verif
for pair in A:$L1 B:$L2; do
  X=${pair%:*}; Y=${pair#*:}
  if [ "$MODE" = confirm ]; then
    [ -f $WT/MUTANTS/$X/patch.diff ] || { echo "$P-$Y: no change $X delivered"; continue; }
    for f in demo_common.hpp build_common.sh; do [ -f $WT/MUTANTS/$f ] && cp $WT/MUTANTS/$f $WT/MUTANTS/$X/ 2>/dev/null; done
    echo "$P-$Y confirm: $(tools/confirm_mutant.sh $WT $X)"
    tools/install_mutant.sh $WT $X $P-$Y $P > /dev/null
    for f in demo_common.hpp build_common.sh build_noguard.sh; do [ -f $WT/MUTANTS/$X/$f ] && cp $WT/MUTANTS/$X/$f seeded/$P-$Y/; done
    python3 - "$P-$Y" <<'PY'
import json,sys
p='/verif/seeded/%s/meta.json'%sys.argv[1]; m=json.load(open(p)); m['source']="later round: independent sub-agent given only the property text, the one-line titles of the earlier seeded changes to avoid, and a scratch worktree of /repo HEAD at the time"; json.dump(m,open(p,'w'),indent=1)
PY
  else
    [ -f seeded/$P-$Y/patch.diff ] || continue
    echo "$P-$Y try: $(tools/try_mutant.sh seeded/$P-$Y/patch.diff $P 60 $P-$Y 2>&1 | grep -E 'violation class|exit=|PATCH|BUILD|harness' | head -4 | tr '\n' ' ' | cut -c1-500)"
  fi
done
if [ "$MODE" = confirm ]; then git -C /repo worktree remove --force $WT; git -C /repo worktree prune; fi
