#!/usr/bin/env python3
"""Orchestrator of the deterministic-simulation checks.

  python3 vcheck.py <ID> --tier quick|thorough     run the check of one property
  python3 vcheck.py --replay <file>                replay a stored violation in a fresh process
  python3 vcheck.py --selftest                     build all variants + determinism gate

Exit codes: 0 held / only known findings, 1 VIOLATION (after the replay gate), 2 harness failure.
"""
import sys, os, json, time, subprocess, threading, queue, hashlib, shutil, signal, re

SCRATCH_BASE = "/dev/shm" if os.path.isdir("/dev/shm") and os.access("/dev/shm", os.W_OK) else __import__("tempfile").gettempdir()   # scratch only: nothing a later command needs
VERIF = os.path.dirname(os.path.abspath(__file__))
REPO = os.environ.get("VERIF_REPO", "/repo")
BUILD = os.environ.get("VERIF_BUILD", os.path.join(VERIF, "build"))
NPROC = int(os.environ.get("VERIF_WORKERS", "16"))
sys.path.insert(0, VERIF)
from checks import CHECKS, VARIANTS_ALL   # table: property -> jobs

CURRENT_PROP = ""      # the property being checked: workers minimise the violation of this property when a run violates several
HANG_TIMEOUT_S = 300    # a plan that runs alone for this long without finishing is a hang (ordinary plans take seconds; loops without calls escape the logical step budget)
FATAL_KIND = {77: "sanitizer", 76: "terminate", 78: "deadlock", 79: "step_budget"}


def log(*a):
    print(*a, flush=True)


def build(variants):
    t0 = time.time()
    for v in variants:
        cmd = ["make", "-C", os.path.join(VERIF, "sim"), "-j", str(NPROC), "VARIANT=" + v, "REPO=" + REPO, "BUILD=" + BUILD]
        p = subprocess.run(cmd, stdout=subprocess.PIPE, stderr=subprocess.STDOUT, text=True)
        if p.returncode != 0:
            log(p.stdout[-4000:])
            log("BUILD FAILED for variant", v)
            return False
    log("build ok (%s) in %.1fs" % (",".join(variants), time.time() - t0))
    return True


def simrun_path(variant):
    return os.path.join(BUILD, variant, "simrun")


class Job:
    """One (variant, workload, focus) stream of seeds with a share of the time budget."""
    def __init__(self, d):
        self.variant = d["variant"]; self.workload = d["workload"]; self.focus = d.get("focus", "")
        self.share = d.get("share", 1.0); self.chunk = d.get("chunk", 20); self.args = d.get("args", [])
        self.env = d.get("env", {}); self.wrapper = d.get("wrapper", [])
        self.max_plans = d.get("max_plans", {"quick": 10 ** 9, "thorough": 10 ** 9})
        self.dual = d.get("dual", 0.05)
        self.name = "%s/%s%s" % (self.variant, self.workload, ("/" + self.focus) if self.focus else "")


def run_chunk(job, tier, a, b, timeout_s, keep_stderr=None):
    """Run seeds a..b in one worker process. Restart after a dead worker. Returns (results, crashes)."""
    results, crashes = [], []
    cur = a
    while cur <= b:
        cmd = job.wrapper + [simrun_path(job.variant), "--workload", job.workload, "--tier", tier, "--seeds", "%d:%d" % (cur, b), "--dual", str(job.dual)] + job.args + (["--prop", CURRENT_PROP] if CURRENT_PROP else [])
        if job.focus:
            cmd += ["--focus", job.focus]
        env = dict(os.environ); env.update(job.env); env.setdefault("TMPDIR", SCRATCH_BASE)
        try:
            p = subprocess.run(cmd, stdout=subprocess.PIPE, stderr=subprocess.PIPE, text=True, errors="replace", timeout=timeout_s, env=env)
            rc, out, err = p.returncode, p.stdout, p.stderr
        except subprocess.TimeoutExpired as e:
            rc, out, err = -999, (e.stdout or b"").decode(errors="replace") if isinstance(e.stdout, bytes) else (e.stdout or ""), ""
        if keep_stderr is not None:
            keep_stderr.append((a, b, err))
        last_begin = None; done = set()
        for line in out.splitlines():
            if line.startswith("@@BEGIN "):
                last_begin = int(line.split()[1])
            elif line.startswith("@@RESULT "):
                try:
                    r = json.loads(line[9:]); r["_job"] = job.name; r["_variant"] = job.variant; r["_proc_first_seed"] = cur; r["_focus"] = job.focus; r["_args"] = job.args; r["_env"] = job.env; r["_tier"] = tier; r["_dual"] = job.dual; results.append(r); done.add(r["seed"])
                except Exception:
                    pass
        if rc in (0, 1) and (last_begin is None or last_begin in done):
            break
        # worker died (sanitizer, signal, fatal exit, watchdog) while running seed last_begin
        if last_begin is None or last_begin in done:
            crashes.append({"seed": cur, "rc": rc, "kind": "worker_failed_without_seed", "stderr": err[-3000:], "_job": job.name, "_variant": job.variant, "workload": job.workload})
            break
        kind = FATAL_KIND.get(rc, "watchdog" if rc == -999 else ("signal" if rc < 0 else "exit_%d" % rc))
        m = re.search(r"@@FATAL (\S+)(.*)", out)
        if m and kind.startswith("exit"):
            kind = m.group(1).lower()
        fatal_line = ("@@FATAL " + m.group(1) + m.group(2) + "\n") if m else ""
        # keep the head of the sanitizer report (kind + first frames) and the tail
        k0 = err.find("ERROR: "); k0 = k0 if k0 >= 0 else max(0, err.find("runtime error"))
        err = fatal_line + err[max(0, k0 - 200):k0 + 5000] + ("\n...\n" + err[-1500:] if len(err) > k0 + 6500 else "")
        crashes.append({"seed": last_begin, "rc": rc, "kind": kind, "stderr": err, "_job": job.name, "_variant": job.variant, "workload": job.workload, "focus": job.focus, "args": job.args, "env": job.env})
        cur = last_begin + 1
    return results, crashes


def explore(jobs, tier, seed0, budget_s):
    """Seeded search: worker threads pull chunks of seeds until the time budget is used."""
    t_end = time.time() + budget_s
    lock = threading.Lock()
    state = {j.name: {"next": seed0, "started": 0} for j in jobs}
    all_results, all_crashes = [], []
    total_share = sum(j.share for j in jobs)

    def pick():
        # job with the largest deficit relative to its share
        with lock:
            best, bestv = None, None
            for j in jobs:
                st = state[j.name]
                if st["started"] >= j.max_plans[tier]:
                    continue
                v = st["started"] / (j.share / total_share)
                if bestv is None or v < bestv:
                    best, bestv = j, v
            if best is None:
                return None
            st = state[best.name]; a = st["next"]; n = min(best.chunk, best.max_plans[tier] - st["started"]); st["next"] += n; st["started"] += n
            return best, a, a + n - 1

    def worker():
        while time.time() < t_end:
            pk = pick()
            if pk is None:
                return
            job, a, b = pk
            remaining = max(30.0, t_end - time.time() + 120.0)
            res, cr = run_chunk(job, tier, a, b, remaining)
            with lock:
                all_results.extend(res); all_crashes.extend(cr)

    threads = [threading.Thread(target=worker, daemon=True) for _ in range(NPROC)]
    for t in threads:
        t.start()
    for t in threads:
        t.join()
    return all_results, all_crashes


def load_known():
    kn = []
    p = os.path.join(VERIF, "known_findings.txt")
    if os.path.exists(p):
        for line in open(p):
            line = line.strip()
            if line.startswith("finding:"):
                m = re.match(r"finding:\s*property=(\S+)\s+clause=(\S+)\s+match=\"([^\"]*)\"\s*(.*)", line)
                if m:
                    kn.append({"prop": m.group(1), "clause": m.group(2), "match": m.group(3), "what": m.group(4)})
    return kn


def known_for(kn, prop, clause, detail):
    for k in kn:
        if k["prop"] == prop and k["clause"] == clause and k["match"] in detail:
            return k
    return None


def write_replay(prop, r, v, plan_text, extra=None):
    rdir = os.environ.get("VERIF_REPLAY_DIR", os.path.join(VERIF, "replays"))     # (tools/try_mutant.sh points this at its scratch copy)
    os.makedirs(rdir, exist_ok=True)
    path = os.path.join(rdir, "%s-%s-%d.json" % (prop, r.get("workload", "x"), r["seed"]))
    doc = {"property": prop, "clause": v["clause"], "detail": v["detail"], "variant": r["_variant"], "workload": r.get("workload"), "seed": r["seed"],
           "plan": plan_text.split("\n"), "original_ops": r.get("nops"), "minimised_ops": r.get("min_nops"), "brief": r.get("brief", "")}
    if extra:
        doc.update(extra)
    json.dump(doc, open(path, "w"), indent=1)
    return path


def replay_file(path, quiet=False):
    """Replays a stored plan in a fresh process; returns (reproduced, message)."""
    doc = json.load(open(path))
    variant = doc["variant"]
    if not os.path.exists(simrun_path(variant)):
        if not build([variant]):
            return False, "build failed"
    if doc.get("history"):
        return replay_history(doc, quiet)
    tmp = os.path.join(os.environ.get("TMPDIR", SCRATCH_BASE), "replay_%d_%d.plan" % (os.getpid(), threading.get_ident()))
    open(tmp, "w").write("\n".join(doc["plan"]) + "\n")
    env = dict(os.environ); env.update(doc.get("env", {})); env.setdefault("TMPDIR", SCRATCH_BASE)
    if doc.get("differential") or doc.get("valgrind") or doc.get("tsan_sig"):
        return replay_stage(doc, variant, tmp, env, quiet)
    try:
        p = subprocess.run(doc.get("wrapper", []) + [simrun_path(variant), "--plan", tmp] + doc.get("args", []), stdout=subprocess.PIPE, stderr=subprocess.PIPE, text=True, errors="replace", timeout=HANG_TIMEOUT_S if doc.get("crash_kind") == "watchdog" else 1800, env=env)
    except subprocess.TimeoutExpired:
        ok = doc.get("crash_kind") == "watchdog"
        if not quiet: log("replay: no result after %d s: %s" % (HANG_TIMEOUT_S, "REPRODUCED (hang)" if ok else "timed out"))
        return ok, "hang"
    finally:
        try: os.unlink(tmp)
        except OSError: pass
    if doc.get("crash_kind"):
        pass
    return replay_rest(doc, p, quiet)


def replay_history(doc, quiet=False):
    """A violation that needs the state left in the process by earlier runs (a static or thread-local variable of the code
    under test): the fresh process runs the same seeds in the same order; the violation must appear at the same seed."""
    h = doc["history"]
    cmd = [simrun_path(doc["variant"]), "--workload", doc["workload"], "--tier", h.get("tier", "quick"), "--seeds", "%d:%d" % (h["first_seed"], doc["seed"]), "--no-minimize", "--dual", str(h.get("dual", 0.0))] + list(h.get("args", []))
    if h.get("focus"):
        cmd += ["--focus", h["focus"]]
    env = dict(os.environ); env.update(h.get("env", {})); env.setdefault("TMPDIR", SCRATCH_BASE)
    p = subprocess.run(cmd, stdout=subprocess.PIPE, stderr=subprocess.PIPE, text=True, errors="replace", timeout=3600, env=env)
    for line in p.stdout.splitlines():
        if line.startswith("@@RESULT "):
            r = json.loads(line[9:])
            if r["seed"] != doc["seed"]: continue
            for v in r["violations"]:
                if v["prop"] == doc["property"] and v["clause"] == doc["clause"]:
                    if not quiet: log("replay: REPRODUCED %s %s at seed %d after seeds %d..%d in the same process: %s" % (v["prop"], v["clause"], doc["seed"], h["first_seed"], doc["seed"] - 1, v["detail"]))
                    return True, v["detail"]
    if not quiet: log("replay: not reproduced with the process history %d..%d" % (h["first_seed"], doc["seed"]))
    return False, "not reproduced with process history"


def replay_stage(doc, variant, tmp, env, quiet):
    if doc.get("differential"):
        fps = []
        for fill in (0, 127):
            e2 = dict(env); e2["ASAN_OPTIONS"] = "malloc_fill_byte=%d:max_malloc_fill_size=268435456" % fill
            open(tmp, "w").write("\n".join(doc["plan"]) + "\n")
            q = subprocess.run([simrun_path(variant), "--plan", tmp], stdout=subprocess.PIPE, stderr=subprocess.PIPE, text=True, errors="replace", timeout=1800, env=e2)
            m = re.search(r'"fingerprint":"([0-9a-f]+)"', q.stdout); fps.append(m.group(1) if m else "dead:%d" % q.returncode)
        try: os.unlink(tmp)
        except OSError: pass
        ok = fps[0] != fps[1]
        if not quiet: log("replay: fill 0x00 -> %s, fill 0x7f -> %s: %s" % (fps[0], fps[1], "REPRODUCED" if ok else "not reproduced"))
        return ok, "fingerprints %s / %s" % tuple(fps)
    if doc.get("valgrind") or doc.get("tsan_sig"):
        tries = 1 if doc.get("valgrind") else 5
        for _ in range(tries):
            open(tmp, "w").write("\n".join(doc["plan"]) + "\n")
            wrap = ["valgrind", "-q", "--error-exitcode=88", "--num-callers=25"] if doc.get("valgrind") else []
            q = subprocess.run(wrap + [simrun_path(variant), "--plan", tmp], stdout=subprocess.PIPE, stderr=subprocess.PIPE, text=True, errors="replace", timeout=3000, env=env)
            if doc.get("valgrind"):
                ok = q.returncode == 88 or "== Conditional jump" in q.stderr or "== Invalid " in q.stderr or "== Use of uninit" in q.stderr
            else:
                ok = any(("%s|%s|%s" % (k, f[0], f[1])) == doc["tsan_sig"] for k, f, b in tsan_reports(q.stderr))
            if ok: break
        try: os.unlink(tmp)
        except OSError: pass
        if not quiet: log("replay: %s" % ("REPRODUCED" if ok else "not reproduced")); log(q.stderr[-2000:])
        return ok, "stage replay"
    return False, "unknown stage doc"


def replay_rest(doc, p, quiet):
    if doc.get("crash_kind"):
        kind = FATAL_KIND.get(p.returncode, "signal" if p.returncode < 0 else "exit_%d" % p.returncode)
        ok = (kind == doc["crash_kind"]) and (not doc.get("crash_sig") or doc["crash_sig"].lower() in (p.stderr + p.stdout).lower())   # ("@@FATAL TERMINATE" is upper case)
        if not quiet:
            log("replay: exit=%d kind=%s expected=%s %s" % (p.returncode, kind, doc["crash_kind"], "REPRODUCED" if ok else "not reproduced"))
            log(p.stderr[-2500:])
        return ok, kind
    for line in p.stdout.splitlines():
        if line.startswith("@@RESULT "):
            r = json.loads(line[9:])
            for v in r["violations"]:
                if v["prop"] == doc["property"] and v["clause"] == doc["clause"]:
                    if not quiet:
                        log("replay: REPRODUCED %s %s: %s" % (v["prop"], v["clause"], v["detail"]))
                    return True, v["detail"]
            if not quiet:
                log("replay: ran, violations now: %s" % r["violations"])
            return False, "not reproduced"
    if not quiet:
        log("replay: no result line; exit=%d\n%s" % (p.returncode, p.stderr[-2000:]))
    return False, "no result"


def crash_signature(stderr):
    """Stable one-line signature of a sanitizer report: kind + first repo frame."""
    kind = ""
    mt = re.search(r"@@FATAL TERMINATE what=(.*)", stderr)
    if mt:
        return "terminate", re.sub(r"[0-9]+", "N", mt.group(1))[:80]
    ms = re.search(r"ERROR: AddressSanitizer: ([a-z\-]+|requested allocation size|hard rss limit[a-z ]*|allocator is out of memory)", stderr)
    if ms and ms.group(1) not in ("SEGV",) and False:
        pass
    m = re.search(r"ERROR: AddressSanitizer: (requested allocation size|hard rss limit exhausted|allocator is out of memory|\S+)", stderr) or re.search(r"runtime error: ([^\n]*)", stderr) or re.search(r"WARNING: ThreadSanitizer: ([^(\n]*)", stderr)
    if m:
        kind = m.group(1).strip()
    frame = ""
    for fm in re.finditer(r"#\d+ 0x[0-9a-f]+ in (.+?) (/[^\s:]+):(\d+)", stderr):
        if "/repo/" in fm.group(2) or (REPO + "/") in fm.group(2):
            frame = "%s %s" % (fm.group(1).split("(")[0], os.path.relpath(fm.group(2), REPO)); break
    return kind, frame


def minimise_crash(job, tier, crash):
    """Orchestrator-level ddmin for plans that kill the worker (each try = a fresh process)."""
    sr = simrun_path(job["variant"])
    env = dict(os.environ); env.update(crash.get("env", {})); env.setdefault("TMPDIR", SCRATCH_BASE)
    # obtain the plan text: ask the worker to print it without running
    cmd = [sr, "--workload", crash["workload"], "--tier", tier, "--seeds", "%d:%d" % (crash["seed"], crash["seed"]), "--print-plan"] + (["--focus", crash["focus"]] if crash.get("focus") else [])
    p = subprocess.run(cmd, stdout=subprocess.PIPE, stderr=subprocess.PIPE, text=True, env=env)
    plan = p.stdout
    if "workload" not in plan:
        return None, 0
    lines = [l for l in plan.split("\n") if l.strip()]
    head = [l for l in lines if not l.startswith("op ")]; ops = [l for l in lines if l.startswith("op ")]
    want_kind, want_frame = crash_signature(crash["stderr"])
    tries = [0]

    def dies(ops_try):
        tries[0] += 1
        tmp = os.path.join(env["TMPDIR"], "min_%d_%d.plan" % (os.getpid(), threading.get_ident()))
        open(tmp, "w").write("\n".join(head + ops_try) + "\n")
        try:
            q = subprocess.run(crash.get("wrapper", []) + [sr, "--plan", tmp] + crash.get("args", []), stdout=subprocess.PIPE, stderr=subprocess.PIPE, text=True, errors="replace", timeout=HANG_TIMEOUT_S if crash.get("kind") == "watchdog" else 600, env=env)
        except subprocess.TimeoutExpired:
            return crash.get("kind") == "watchdog"      # a hang is confirmed when the plan, run alone, does not finish either
        finally:
            try: os.unlink(tmp)
            except OSError: pass
        if crash.get("kind") == "watchdog":
            return False
        if q.returncode != crash["rc"]:
            return False
        mf = re.search(r"@@FATAL [^\n]*", q.stdout)
        k, f = crash_signature((mf.group(0) + "\n" if mf else "") + q.stderr)
        return (k, f) == (want_kind, want_frame)

    if not dies(ops):
        return None, tries[0]
    if crash.get("kind") == "watchdog":
        return "\n".join(head + ops), tries[0]        # (no minimisation: every attempt would cost the hang time-out)
    chunk = max(1, len(ops) // 2)
    while chunk >= 1 and ops and tries[0] < 40:
        progress = False; i = 0
        while i < len(ops) and tries[0] < 40:
            cand = ops[:i] + ops[i + chunk:]
            if dies(cand):
                ops = cand; progress = True
            else:
                i += chunk
        if chunk == 1 and not progress:
            break
        chunk = chunk // 2 if not progress else min(chunk, max(1, len(ops) // 2))
    return "\n".join(head + ops), tries[0]


# ------------------------------------------------------------------------------------------------
# extra stages of a check (C10): poison differential, valgrind sampling, TSan free-running sampling
def parallel_map(fn, items, nthreads):
    out = [None] * len(items); q = queue.Queue()
    for i, it in enumerate(items): q.put((i, it))
    def w():
        while True:
            try: i, it = q.get_nowait()
            except queue.Empty: return
            out[i] = fn(it)
    ts = [threading.Thread(target=w, daemon=True) for _ in range(min(nthreads, max(1, len(items))))]
    for t in ts: t.start()
    for t in ts: t.join()
    return out


def stage_poison(prop, st, tier, seed0, known):
    """Same plan under two heap fill bytes must give the same event log."""
    n = st["n"][tier]; viol = []; cov = {"poison_pairs": 0, "poison_mismatches": 0}
    for jd in st["jobs"]:
        base = seed0 * 1000003 + 7000000
        items = [(base + i * jd.get("chunk", 5), base + (i + 1) * jd.get("chunk", 5) - 1) for i in range(max(1, int(n * jd.get("share", 1.0) / jd.get("chunk", 5))))]
        def run_both(rng):
            res = {}
            for fill in (0, 127):
                d = dict(jd); d["env"] = {"ASAN_OPTIONS": "malloc_fill_byte=%d:max_malloc_fill_size=268435456" % fill}; d["dual"] = 0.0
                r, c = run_chunk(Job(d), tier, rng[0], rng[1], 900)
                res[fill] = ({x["seed"]: x for x in r}, c)
            return res
        for both in parallel_map(run_both, items, NPROC // 2):
            a, b = both[0][0], both[127][0]
            for seed in sorted(set(a) & set(b)):
                cov["poison_pairs"] += 1
                if a[seed]["fingerprint"] != b[seed]["fingerprint"] or a[seed]["ok"] != b[seed]["ok"]:
                    cov["poison_mismatches"] += 1
                    viol.append(("uninit.poison_differential", "event log of %s seed %d depends on the heap fill byte (0x00: %s, 0x7f: %s)" % (jd["workload"], seed, a[seed]["fingerprint"], b[seed]["fingerprint"]),
                                 {"seed": seed, "workload": jd["workload"], "_variant": jd["variant"], "focus": jd.get("focus", ""), "differential": True}))
    return viol, cov


def first_repo_frames(text, n=2):
    fr = []
    for m in re.finditer(r"(?:#\d+ 0x[0-9a-f]+ in |(?:at|by) 0x[0-9A-Fa-f]+: )(.+?) \(?(/?[^\s:()]+):(\d+)\)?", text):
        path = m.group(2)
        if "/repo/" in path or path.startswith(REPO) or (("/" not in path) and path.endswith((".cpp", ".hpp")) and "simgomp" not in path and "w1_" not in path and "harness" not in path):
            fr.append("%s %s" % (m.group(1).split("(")[0][-60:], os.path.basename(path)))
            if len(fr) >= n: break
    return fr


def stage_valgrind(prop, st, tier, seed0, known):
    n = st["n"][tier]; viol = []; cov = {"valgrind_plans": 0, "valgrind_errors": 0}
    items = []
    for jd in st["jobs"]:
        base = seed0 * 1000003 + 8000000
        k = max(1, int(n * jd.get("share", 1.0)))
        items += [(jd, base + i) for i in range(k)]
    def one(it):
        jd, seed = it; d = dict(jd); d["wrapper"] = ["valgrind", "-q", "--error-exitcode=88", "--num-callers=25", "--errors-for-leak-kinds=none", "--leak-check=no"]; d["dual"] = 0.0
        errs = []
        r, c = run_chunk(Job(d), tier, seed, seed, 1500, keep_stderr=errs)
        return jd, seed, r, c, errs
    for jd, seed, r, c, errs in parallel_map(one, items, NPROC):
        cov["valgrind_plans"] += 1
        text = "\n".join(e[2] for e in errs)
        if c or "== Conditional jump" in text or "== Use of uninitialised" in text or "== Invalid " in text:
            cov["valgrind_errors"] += 1
            m = re.search(r"==\d+== ((?:Conditional|Use of uninit|Invalid|Syscall param|Mismatched|Source and dest)[^\n]*)", text)
            what = m.group(1) if m else "valgrind error"
            fr = first_repo_frames(text[m.start():] if m else text, 1)
            viol.append(("memcheck." + what.split(" ")[0].lower(), "valgrind memcheck on %s seed %d: %s at %s" % (jd["workload"], seed, what, fr[0] if fr else "?"),
                         {"seed": seed, "workload": jd["workload"], "_variant": jd["variant"], "focus": jd.get("focus", ""), "valgrind": True, "report": text[:3000]}))
    return viol, cov


def tsan_repo_frames(text, n=1):
    """ThreadSanitizer frames look like '#2 func(args) /path/file.cpp:127 (module+0x...)' (no address, no ' in ')."""
    fr = []
    for m in re.finditer(r"#\d+ (.+?) (/[^\s()]+?):(\d+)(?::\d+)? \(", text):
        path = m.group(2)
        if "/repo/src/" in path or "/repo/include/" in path or "/repo/main.cpp" in path:
            fr.append("%s %s" % (m.group(1).split("(")[0][-60:], os.path.basename(path)))
            if len(fr) >= n: break
    return fr


def tsan_reports(text):
    out = []
    for blk in text.split("=================="):
        m = re.search(r"WARNING: ThreadSanitizer: ([^(\n]*)", blk)
        if not m: continue
        parts = re.split(r"\n  (?=Previous |Location|Thread T|Mutex)", blk)
        frames = []
        for p in parts[:2]:
            f = first_repo_frames(p, 1) or tsan_repo_frames(p, 1)
            frames.append(f[0] if f else None)
        if all(frames) and len(frames) == 2:
            out.append((m.group(1).strip(), tuple(sorted(frames)), blk[:2500]))
    return out


def stage_tsan(prop, st, tier, seed0, known):
    n = st["n"][tier]; viol = []; cov = {"tsan_runs": 0, "tsan_serialised_runs": 0, "tsan_free_running_runs": 0, "tsan_reports": 0, "tsan_note": "serialised runs: the seeded scheduler decides every switch and hands over through a futex word ThreadSanitizer does not model, OpenMP's own synchronisation (fork, join, critical, atomic, locks) is annotated, so TSan's vector clocks judge the serialised schedule as if the members were concurrent and a report replays from its seed; free-running runs: real concurrency under pthread primitives, observational (a report is searched again in up to 5 fresh runs of the seed)"}
    items = []
    for jd in st["jobs"]:
        base = seed0 * 1000003 + 9000000
        items += [(jd, base + i) for i in range(max(1, int(n * jd.get("share", 1.0))))]
    def one(it):
        jd, seed = it; d = dict(jd); d["dual"] = 0.0; errs = []
        r, c = run_chunk(Job(d), tier, seed, seed, 900, keep_stderr=errs)
        return jd, seed, r, c, "\n".join(e[2] for e in errs)
    seen = {}
    for jd, seed, r, c, text in parallel_map(one, items, max(2, NPROC // 4)):
        cov["tsan_runs"] += 1; cov["tsan_serialised_runs" if "free_running=0" in jd.get("args", []) else "tsan_free_running_runs"] += 1
        for kind, frames, blk in tsan_reports(text):
            cov["tsan_reports"] += 1
            sig = "%s|%s|%s" % (kind, frames[0], frames[1])
            if sig not in seen:
                seen[sig] = (jd, seed, blk)
    for sig, (jd, seed, blk) in seen.items():
        viol.append(("tsan." + sig.split("|")[0].replace(" ", "_"), "ThreadSanitizer (%s) on %s seed %d: %s" % ("serialised seeded schedule" if "free_running=0" in jd.get("args", []) else "free-running team", jd["workload"], seed, sig),
                     {"seed": seed, "workload": jd["workload"], "_variant": jd["variant"], "focus": jd.get("focus", ""), "_args": jd.get("args", []), "tsan_sig": sig, "report": blk}))
    return viol, cov


STAGES = {"poison": stage_poison, "valgrind": stage_valgrind, "tsan": stage_tsan}


def plan_text_for(variant, workload, tier, seed, focus, args=()):
    cmd = [simrun_path(variant), "--workload", workload, "--tier", tier, "--seeds", "%d:%d" % (seed, seed), "--print-plan"] + (["--focus", focus] if focus else []) + list(args)
    return subprocess.run(cmd, stdout=subprocess.PIPE, stderr=subprocess.PIPE, text=True).stdout


def main():
    args = sys.argv[1:]
    if not args:
        print(__doc__); return 2
    if args[0] == "--replay":
        ok, msg = replay_file(args[1]); return 1 if ok else 0
    if args[0] == "--selftest":
        from selftest import selftest
        return selftest()
    prop = args[0]
    tier = os.environ.get("VERIF_TIER") or "quick"
    seed0 = int(os.environ.get("VERIF_SEED", "1"))
    i = 1
    while i < len(args):
        if args[i] == "--tier": tier = args[i + 1]; i += 2
        elif args[i] == "--seed": seed0 = int(args[i + 1]); i += 2
        else: i += 1
    if os.environ.get("VERIF_TIER"):
        tier = os.environ["VERIF_TIER"]
    if prop not in CHECKS:
        log("unknown property", prop); return 2
    spec = CHECKS[prop]
    global CURRENT_PROP
    CURRENT_PROP = prop
    if "custom" in spec:
        return spec["custom"](prop, tier, seed0)
    return run_property(prop, spec, tier, seed0)


def run_property(prop, spec, tier, seed0):
    t0 = time.time()
    jobs = [Job(d) for d in spec["jobs"]]
    variants = sorted(set(j.variant for j in jobs))
    if not build(variants):
        return 2
    budget = spec.get("budget", {"quick": 60, "thorough": 1200})[tier]
    budget = float(os.environ.get("VERIF_BUDGET_S", budget))
    # seeds: a window of the seed space per (VERIF_SEED); thorough starts elsewhere than quick
    base = seed0 * 1000003 + (500000 if tier == "thorough" else 0)
    results, crashes = explore(jobs, tier, base, budget)
    known = load_known()
    own_props = set([prop] + spec.get("also", []))
    # crash kind -> clause. A sanitizer report, std::terminate or a fatal signal inside a property's own workload means the
    # operation the property speaks about did not deliver, so every check owns sanitizer reports and fatal signals (zero on the unchanged tree);
    # harness limits (step budget, watchdog) are owned only where the property speaks about termination.
    crash_prop = {"sanitizer": "crash.sanitizer", "signal": "crash.signal"}      # (std::terminate only where the property speaks about escaping exceptions: a noexcept contact phase turns the numerical blow-up of an unstable plan into a terminate)
    crash_prop.update(spec.get("crash_kinds", {}))
    viol_new, viol_known, foreign = [], [], {}
    nondet = [r for r in results if not r.get("dual_ok", True)]
    unrepro = []
    for r in results:
        for v in r["violations"]:
            if v["prop"] not in own_props:
                foreign[v["prop"] + ":" + v["clause"]] = foreign.get(v["prop"] + ":" + v["clause"], 0) + 1
                continue
            k = known_for(known, prop, v["clause"], v["detail"])
            if k:
                viol_known.append((r, v, k)); continue
            if not r.get("reproduced", False):
                unrepro.append((r, v)); continue
            viol_new.append((r, v))
    own_crashes, other_crashes = [], []
    ignore_by_job = {Job(j).name: set(j.get("ignore_kinds", [])) for j in spec["jobs"]}
    for c in crashes:
        if c["kind"] in crash_prop and c["kind"] not in ignore_by_job.get(c.get("_job", ""), set()):
            own_crashes.append(c)
        else:
            other_crashes.append(c)

    exit_code = 0
    printed = set()
    # replay gate for in-process violations
    by_class = {}
    for r, v in viol_new:
        by_class.setdefault(v["clause"], []).append((r, v))
    confirmed = 0
    for clause, lst in by_class.items():
        lst.sort(key=lambda rv: rv[0].get("min_nops", 10 ** 9))
        r, v = lst[0]
        path = write_replay(prop, r, v, r.get("min_plan") or r.get("plan", ""), {"args": [], "also_failing_seeds": [x[0]["seed"] for x in lst[1:20]]})
        ok, msg = replay_file(path, quiet=True)
        if ok:
            log("violation class %s: %s" % (clause, v["detail"]))
            log("VIOLATION property=%s replay=%s" % (prop, path)); confirmed += 1; exit_code = 1
        else:
            # the plan alone does not reproduce it: does it need the state earlier runs left in the worker process?
            ok2 = False
            if r.get("_proc_first_seed") is not None and r["_proc_first_seed"] < r["seed"]:
                path = write_replay(prop, r, v, r.get("plan", ""), {"history": {"first_seed": r["_proc_first_seed"], "focus": r.get("_focus", ""), "args": [a for a in r.get("_args", [])], "env": r.get("_env", {}), "tier": r.get("_tier", tier), "dual": r.get("_dual", 0.0)},
                                    "note": "the violation appears only after the runs of the earlier seeds in the same process: state kept between runs by the code under test"})
                ok2, msg2 = replay_file(path, quiet=True)
            if ok2:
                log("violation class %s: %s [reproduces only after seeds %d..%d in the same process]" % (clause, v["detail"], r["_proc_first_seed"], r["seed"] - 1))
                log("VIOLATION property=%s replay=%s" % (prop, path)); confirmed += 1; exit_code = 1
            else:
                log("harness failure: violation %s/%s of seed %d did not replay in a fresh process (%s)" % (prop, clause, r["seed"], msg))
                exit_code = max(exit_code, 2) if exit_code != 1 else 1
    # crashes owned by this property (sanitizer reports for C10, deadlock for C15, ...)
    crash_classes = {}
    for c in own_crashes:
        kind, frame = crash_signature(c["stderr"])
        sig = "%s|%s|%s" % (c["kind"], kind, frame)
        crash_classes.setdefault(sig, []).append(c)
    for sig, lst in crash_classes.items():
        c = lst[0]
        clause = crash_prop[c["kind"]]
        k = known_for(known, prop, clause, sig)
        if k:
            viol_known.append(({"seed": c["seed"]}, {"clause": clause, "detail": sig}, k)); continue
        jobd = {"variant": c["_variant"]}
        plan, tries = minimise_crash(jobd, tier, c)
        if plan is None and c["kind"] == "watchdog":
            # the worker was stopped by the chunk's wall-clock limit (end of the budget, a loaded machine) while it ran this seed; alone the plan finishes: no hang
            log("note: worker stopped by the wall-clock limit on seed %d of %s; the plan finishes when run alone (no hang)" % (c["seed"], c["_job"]))
            continue
        if plan is None:
            log("harness failure: dead worker (%s) on seed %d of %s did not reproduce when run alone" % (sig, c["seed"], c["_job"]))
            log(c["stderr"][-1500:])
            exit_code = max(exit_code, 2) if exit_code != 1 else 1
            continue
        kind, frame = crash_signature(c["stderr"])
        r = {"seed": c["seed"], "workload": c["workload"], "_variant": c["_variant"]}
        path = write_replay(prop, r, {"clause": clause, "detail": sig}, plan, {"crash_kind": c["kind"], "crash_sig": kind, "args": c.get("args", []), "env": c.get("env", {}), "report_tail": c["stderr"][-3000:], "also_failing_seeds": [x["seed"] for x in lst[1:20]]})
        ok, msg = replay_file(path, quiet=True)
        if ok:
            log("violation class %s: %s" % (clause, sig))
            log("VIOLATION property=%s replay=%s" % (prop, path)); exit_code = 1
        else:
            log("harness failure: crash %s did not replay from %s" % (sig, path)); exit_code = max(exit_code, 2) if exit_code != 1 else 1
    # ---- extra stages (poison differential, valgrind, TSan)
    stage_cov = {}; stage_classes = 0
    for st in spec.get("stages", []):
        need = sorted(set(j["variant"] for j in st["jobs"]))
        if not build(need):
            return 2
        sviol, scov = STAGES[st["type"]](prop, st, tier, seed0, known)
        stage_cov.update(scov)
        done_cl = set()
        for clause, detail, info in sviol:
            k = known_for(known, prop, clause, detail)
            if k:
                viol_known.append(({"seed": info["seed"]}, {"clause": clause, "detail": detail}, k)); continue
            if (clause, info.get("tsan_sig", "")) in done_cl and st["type"] != "tsan":
                continue
            done_cl.add((clause, info.get("tsan_sig", "")))
            plan = plan_text_for(info["_variant"], info["workload"], tier, info["seed"], info.get("focus", ""), info.get("_args", ()))
            extra = {k2: info[k2] for k2 in ("differential", "valgrind", "tsan_sig", "report") if k2 in info}
            path = write_replay(prop, {"seed": info["seed"], "workload": info["workload"], "_variant": info["_variant"]}, {"clause": clause, "detail": detail}, plan, extra)
            ok, msg = replay_file(path, quiet=True)
            if ok:
                log("violation class %s: %s" % (clause, detail)); log("VIOLATION property=%s replay=%s" % (prop, path)); exit_code = 1; stage_classes += 1
            else:
                log("harness failure: %s (%s) did not replay from %s" % (clause, detail[:160], path))
                if exit_code == 0: exit_code = 2
    seen_known = set()
    for r, v, k in viol_known:
        key = (k["clause"], k["match"])
        if key in seen_known: continue
        seen_known.add(key)
        log("KNOWN-FINDING: property=%s %s [%s; e.g. seed %s]" % (prop, k["what"], k["clause"], r.get("seed")))
    if nondet:
        log("harness failure: %d plans gave a different event log when run twice (determinism gate), e.g. seed %d of %s" % (len(nondet), nondet[0]["seed"], nondet[0]["_job"]))
        if exit_code == 0: exit_code = 2
    if unrepro:
        log("harness failure: %d violations did not reproduce in-process, e.g. seed %d: %s" % (len(unrepro), unrepro[0][0]["seed"], unrepro[0][1]))
        if exit_code == 0: exit_code = 2

    # ---- evidence
    wall = time.time() - t0
    fps = set(); nontrivial = set(); probes = {}; faults = {}; sched = set(); steps = iters = 0; simtime = 0.0; per_job = {}; teams = {}
    fired = 0
    for r in results:
        fps.add(r["fingerprint"])
        if r.get("nontrivial"): nontrivial.add(r["fingerprint"])
        for k, n in r.get("probes", {}).items(): probes[k] = max(probes.get(k, 0), n) if (k.endswith("_max") or k == "enum_space") else probes.get(k, 0) + n
        for k, n in r.get("faults", {}).items(): faults[k] = faults.get(k, 0) + n
        sched.add(r.get("sched_hash")); steps += r.get("steps", 0); iters += r.get("iters", 0); simtime += r.get("sim_time", 0)
        pj = per_job.setdefault(r["_job"], {"plans": 0, "nontrivial": 0}); pj["plans"] += 1; pj["nontrivial"] += 1 if r.get("nontrivial") else 0
        teams[str(r.get("max_team", 0))] = teams.get(str(r.get("max_team", 0)), 0) + 1
        fired += r.get("faults_fired", 0)
        for k in ("switches", "preemptions", "blocked_crit", "blocked_lock", "clock_backwards"):
            faults["sched." + k if k != "clock_backwards" else "clock.backwards"] = faults.get("sched." + k if k != "clock_backwards" else "clock.backwards", 0) + r.get(k, 0)
    faults["exceptions_injected"] = fired
    samples = [r["brief"] for r in results[:3]] + [r["brief"] for r in results[-2:]] if results else ["(no plan completed)"]
    zero_probes = [p for p in spec.get("expect_probes", []) if probes.get(p, 0) == 0]
    ev = {
        "property_id": prop, "tier": tier, "seed": seed0, "level": spec.get("level", "exploration"), "wall_s": round(wall, 2),
        "violations": len([1 for _ in by_class]) + len(crash_classes) + stage_classes,
        "coverage": {
            "evaluations": max(1, len(results) + len(crashes)),
            "distinct_nontrivial": len(nontrivial),
            "rule": spec["rule"],
            "samples": samples,
            "plans_completed": len(results), "workers_died": len(crashes), "distinct_event_logs": len(fps), "distinct_schedules": len(sched),
            "runs_per_hour": int(len(results) / max(wall, 1e-9) * 3600), "simulated_iterations": iters, "simulated_time_s": simtime, "logical_steps": steps,
            "team_size_histogram": teams, "faults_fired": faults, "probes": probes, "probes_stuck_at_zero": zero_probes,
            "per_job": per_job, "violations_of_other_properties_seen": foreign,
            "other_worker_deaths": [{"job": c["_job"], "seed": c["seed"], "kind": c["kind"], "sig": "|".join(crash_signature(c["stderr"]))} for c in other_crashes[:10]],
            "known_findings_seen": sorted(set(k["what"] for _, _, k in viol_known)),
            "determinism_gate_sampled_fraction": jobs[0].dual if jobs else 0, "nondeterministic_plans": len(nondet), "stages": stage_cov,
            "real_vs_stub": {"real": "every line under /repo/src, /repo/include, lib/tinyxml2, lib/delaunator (compiled from the working tree)", "stub": "libgomp -> simgomp (seeded scheduler); std::chrono::system_clock::now; rand/srand; main() replaced by the driver"},
        },
        "assumptions": spec.get("assumptions", []),
    }
    edir = os.environ.get("VERIF_EVIDENCE_DIR", os.path.join(VERIF, "evidence"))   # (tools/try_mutant.sh: runs against a changed copy must not touch the real evidence)
    os.makedirs(edir, exist_ok=True)
    json.dump(ev, open(os.path.join(edir, prop + ".json"), "w"), indent=1)
    log("%s %s: %d plans (%d distinct non-trivial), %d worker deaths, %d new violation classes, %d known; %.0fs" % (prop, tier, len(results), len(nontrivial), len(crashes), confirmed + len([1 for s in crash_classes]), len(seen_known), wall))
    if len(results) == 0:
        log("harness failure: no plan completed"); return 2
    return exit_code


if __name__ == "__main__":
    sys.exit(main())
