"""Table of checks: property -> jobs (variant, workload, focus), budgets, evidence rule."""

A10 = "asan_cm1_dm0"
VARIANTS_ALL = ["asan_cm1_dm0", "asan_cm0_dm0", "asan_cm2_dm0", "asan_cm1_dm1"]

COMMON_ASSUME = [
    "a clean batch is evidence from seeded sampling, not a proof",
    "the serialising scheduler switches team members only at synchronisation calls and at entries of repository functions; instruction-level races are out of reach of this mode",
    "built with -DNDEBUG like the shipped RelWithDebInfo configuration (assert is not evaluated)",
]

CHECKS = {
    "C01": {
        "jobs": [{"variant": A10, "workload": "w2", "focus": "C01", "share": 1.0, "chunk": 25}],
        "budget": {"quick": 60, "thorough": 1200},
        "rule": "one case = one generated remeshing history (5-40 ops: displacements, cache refresh, refine, single split/merge/swap on a chosen edge, rebase, refine_meshes on a team) on 1-5 generated cells; oracle T1-T8 after every op (and after every op inside a pass when deep=1); distinct = distinct event-log hash; non-trivial = at least one split/merge/swap actually executed",
        "expect_probes": ["pass_splits", "pass_merges", "pass_swaps", "op_split", "op_merge", "op_swap", "rebase", "refine_all", "pass_with_split_and_merge"],
        "assumptions": COMMON_ASSUME + ["T7 (positive volume) is judged for cells the mesh resolves (>= 50 l_min^3 before the operation; inside-out flips from >= 10 l_min^3)", "stale-cache regime bounds face rotation to 60 degrees between refresh and refinement (the solver's one-step staleness)", "node ids stay below 65536 (edge::hash overflow out of reach)"],
    },
    "C11": {
        "jobs": [{"variant": A10, "workload": "w2", "focus": "C11", "share": 1.0, "chunk": 25}],
        "budget": {"quick": 60, "thorough": 1200},
        "crash_kinds": {"step_budget": "termination.step_budget"},
        "rule": "same histories as C01; per-operation postconditions checked at the exit of every split/merge/swap (inside passes too, via the instrumentation hook), pass-level conservation, fixpoint and operation-count bound; distinct = distinct event-log hash; non-trivial = at least one split/merge/swap executed",
        "expect_probes": ["pass_splits", "pass_merges", "pass_swaps", "fixpoint_checked", "pass_with_split_and_merge"],
        "assumptions": COMMON_ASSUME + ["momentum clauses are checked in the dm0 (semi-implicit) build, where nodes carry momentum"],
    },
}
