"""Table of checks: property -> jobs (variant, workload, focus), budgets, evidence rule."""

A10 = "asan_cm1_dm0"
VARIANTS_ALL = ["asan_cm1_dm0", "asan_cm0_dm0", "asan_cm2_dm0", "asan_cm1_dm1"]

COMMON_ASSUME = [
    "a clean batch is evidence from seeded sampling, not a proof",
    "the serialising scheduler switches team members only at synchronisation calls and at entries of repository functions; instruction-level races are out of reach of this mode",
    "built with -DNDEBUG like the shipped RelWithDebInfo configuration (assert is not evaluated)",
]

CHECKS = {
    "C01": {
        "jobs": [{"variant": A10, "workload": "w2", "focus": "C01", "share": 1.0, "chunk": 25}],
        "budget": {"quick": 60, "thorough": 1200},
        "rule": "one case = one generated remeshing history (5-40 ops: displacements, cache refresh, refine, single split/merge/swap on a chosen edge, rebase, refine_meshes on a team) on 1-5 generated cells; oracle T1-T8 after every op (and after every op inside a pass when deep=1); distinct = distinct event-log hash; non-trivial = at least one split/merge/swap actually executed",
        "expect_probes": ["pass_splits", "pass_merges", "pass_swaps", "op_split", "op_merge", "op_swap", "rebase", "refine_all", "pass_with_split_and_merge"],
        "assumptions": COMMON_ASSUME + ["T7 (positive volume) is judged for cells the mesh resolves (>= 50 l_min^3 before the operation; inside-out flips from >= 10 l_min^3)", "stale-cache regime bounds face rotation to 60 degrees between refresh and refinement (the solver's one-step staleness)", "node ids stay below 65536 (edge::hash overflow out of reach)"],
    },
    "C11": {
        "jobs": [{"variant": A10, "workload": "w2", "focus": "C11", "share": 1.0, "chunk": 25}],
        "budget": {"quick": 60, "thorough": 1200},
        "crash_kinds": {"step_budget": "termination.step_budget"},
        "rule": "same histories as C01; per-operation postconditions checked at the exit of every split/merge/swap (inside passes too, via the instrumentation hook), pass-level conservation, fixpoint and operation-count bound; distinct = distinct event-log hash; non-trivial = at least one split/merge/swap executed",
        "expect_probes": ["pass_splits", "pass_merges", "pass_swaps", "fixpoint_checked", "pass_with_split_and_merge"],
        "assumptions": COMMON_ASSUME + ["momentum clauses are checked in the dm0 (semi-implicit) build, where nodes carry momentum"],
    },
    "C03": {
        "jobs": [{"variant": "asan_cm1_dm0", "workload": "w1", "focus": "C03", "share": 0.4, "chunk": 6},
                 {"variant": "asan_cm1_dm1", "workload": "w1", "focus": "C03", "share": 0.2, "chunk": 6},
                 {"variant": "asan_cm0_dm0", "workload": "w1", "focus": "C03", "share": 0.2, "chunk": 6},
                 {"variant": "asan_cm2_dm0", "workload": "w1", "focus": "C03", "share": 0.2, "chunk": 6}],
        "budget": {"quick": 75, "thorough": 1200},
        "rule": "one case = one generated tissue (1-6 cells of all types, touching/overlapping layouts so that epithelial nodes couple) run for 8-90 real solver iterations on a team of 1-16 under a drawn schedule; at every update_nodes_positions the snapshot taken at entry is advanced by the reference integrator and compared node by node at exit; distinct = distinct event-log hash; non-trivial = at least 3 iterations integrated",
        "expect_probes": ["c03_nodes_checked", "c03_coupled_pairs_checked"],
        "assumptions": COMMON_ASSUME + ["nodes in non-mutual coupling chains (a->b, b->c) and, in contact model 2, multiply coupled nodes are outside the statement and skipped (counted in probes)", "per-node mass reference = cell mass getter / live nodes counted by the harness; the enclosed volume behind the mass is judged under C04"],
    },
    "C04": {
        "jobs": [{"variant": "asan_cm1_dm0", "workload": "w1", "focus": "C04", "share": 0.8, "chunk": 6},
                 {"variant": "asan_cm1_dm1", "workload": "w1", "focus": "C04", "share": 0.2, "chunk": 6}],
        "budget": {"quick": 75, "thorough": 1200},
        "rule": "one case = one tissue run with a drawn growth/division/removal scenario (zero, positive, negative growth, finite/infinite division volume and pressure cap, sigma>0, explicit growth-rate changes, jumping clock); reference cell-cycle law stepped beside the run per cell id; distinct = distinct event-log hash; non-trivial = at least 3 iterations",
        "expect_probes": ["c04_cells_checked", "divisions", "removals", "random_props_checked", "division_failed_naturally"],
        "assumptions": COMMON_ASSUME + ["pressure tolerance 1e-9 relative plus the rounding of a volume computed about the origin", "division eligibility is judged with a 1e-3 band around the division volume (the code tests the volume cached one step earlier)"],
    },
    "C08": {
        "jobs": [{"variant": "asan_cm1_dm0", "workload": "w1", "focus": "C08", "share": 0.7, "chunk": 6},
                 {"variant": "asan_cm0_dm0", "workload": "w1", "focus": "C08", "share": 0.15, "chunk": 6},
                 {"variant": "asan_cm2_dm0", "workload": "w1", "focus": "C08", "share": 0.15, "chunk": 6}],
        "budget": {"quick": 75, "thorough": 1200},
        "rule": "one case = one tissue run whose history interleaves divisions and removals; at every phase that dereferences them (contact entry/exit, update_nodes_positions entry, mesh_writer entry) and at iteration end: list index == position, unique never-reused ids, coupling targets live nodes of another epithelial cell, face owner, face-type index in range; distinct = distinct event-log hash; non-trivial = at least 3 iterations",
        "expect_probes": ["divisions", "removals", "simultaneous_divisions"],
        "assumptions": COMMON_ASSUME,
    },
    "C15": {
        "jobs": [{"variant": "asan_cm1_dm0", "workload": "w1", "focus": "C15", "share": 0.6, "chunk": 5},
                 {"variant": "asan_cm1_dm0", "workload": "w2", "focus": "C15", "share": 0.2, "chunk": 25},
                 {"variant": "asan_cm1_dm0", "workload": "w3", "focus": "C15", "share": 0.2, "chunk": 20}],
        "budget": {"quick": 75, "thorough": 1200},
        "crash_kinds": {"deadlock": "deadlock"},
        "rule": "one case = one non-interacting tissue run twice: on a team of 2-16 under a drawn schedule (rtc, permuted rtc, PCT depth 1-6, random walk, starvation) and on a team of one; population hashes (positions, momenta, connectivity; order independent) must agree after every iteration; plus refine_meshes on a team versus sequential refinement of copies; distinct = distinct event-log hash; non-trivial = at least 3 iterations",
        "expect_probes": ["team_differential_runs", "refine_all", "divisions", "team_division_runs", "simultaneous_divisions"],
        "assumptions": COMMON_ASSUME + ["instruction-level races need the TSan free-running mode (not part of this check yet)"],
    },
    "C06": {
        "jobs": [{"variant": "asan_cm1_dm0", "workload": "wc", "focus": "C06", "share": 0.5, "chunk": 8},
                 {"variant": "asan_cm0_dm0", "workload": "wc", "focus": "C06", "share": 0.25, "chunk": 8},
                 {"variant": "asan_cm2_dm0", "workload": "wc", "focus": "C06", "share": 0.25, "chunk": 8}],
        "budget": {"quick": 75, "thorough": 1200},
        "rule": "one case = one generated tissue of 2-5 cells (touching / overlapping / nested layouts; placed at the origin, 10-1000 radii away, straddling the origin, or aligned to voxel multiples of the contact grid; cut-off/l_min ratio 0.1-2, unequal adhesion/repulsion cut-offs) run for 2-20 real iterations; at every contact phase the forces, couplings and node positions it produced are compared with the code's own narrow phase applied to ALL node x triangle pairs of different cells on deep copies, in the grid's iteration order; distinct = distinct event-log hash; non-trivial = a contact phase that produced forces or couplings",
        "expect_probes": ["c06_bruteforce_phases", "c06_phases_with_forces", "c06_phases_with_couplings"],
        "assumptions": COMMON_ASSUME + ["exact comparison on a team of one, and on larger teams when no coupling decision is order dependent (counted in probe c06_exact_skipped_order_dependent)", "the narrow-phase rules are the code's own public resolve_contact/apply_contact_forces: this check isolates the broad phase (AABB padding, voxel registration, per-node voxel lookup)"],
    },
    "C07": {
        "jobs": [{"variant": "asan_cm1_dm0", "workload": "wc", "focus": "C07", "share": 0.5, "chunk": 8},
                 {"variant": "asan_cm0_dm0", "workload": "wc", "focus": "C07", "share": 0.25, "chunk": 8},
                 {"variant": "asan_cm2_dm0", "workload": "wc", "focus": "C07", "share": 0.25, "chunk": 8}],
        "budget": {"quick": 75, "thorough": 1200},
        "rule": "same tissues as C06, all cell-type combinations; per contact phase: net contact force zero, every node with a contact force has an element of another cell within the cut-off by the harness' own closest-point geometry, couplings join nodes of different cells closer than the adhesion cut-off; for every node on the forbidden side of exactly one other cell (ray-parity test) the code's narrow phase is run on the single pair (node, closest triangle): pair reciprocity, restoring direction, reaction direction, existence of repulsion when the code's own gates admit the pair; distinct = distinct event-log hash; non-trivial = a contact phase that produced forces or couplings",
        "expect_probes": ["c07_pairs_checked", "c07_restoring_checked", "c07_couplings_checked", "contact_phases_with_forces"],
        "assumptions": COMMON_ASSUME + ["the atomicity of concurrent force accumulation is a TSan matter, not reachable by the serialising scheduler"],
    },
    "C14": {
        "jobs": [{"variant": "asan_cm1_dm0", "workload": "w14", "focus": "C14", "share": 1.0, "chunk": 8, "dual": 0.0}],
        "budget": {"quick": 75, "thorough": 1200},
        "rule": "one case = one generated tissue (1-5 jittered ellipsoid cells of all types; separated, touching or overlapping; growth / division / removal scenarios) executed twice under the same seed, team, schedule and frozen clock: as generated and translated by t (classes: 0.1 L, 10 L, 300 L, across the origin, whole voxels of the contact grid); after every iteration cell count, ids, connectivity, positions (minus t), volumes and pressures must agree; a mismatch counts only if an independently drawn t' of the same class mismatches too; distinct = distinct reference trajectory hash; non-trivial = at least 3 compared iterations of a stable reference run",
        "expect_probes": ["pairs_compared", "stopped_at_first_division"],
        "assumptions": COMMON_ASSUME + ["tolerances: positions 1e-7 L + 64 ulp(|t|) + 50 L eps (|t|/L)^3, volumes/pressures 1e-7 + 4000 eps (|t|/L)^3 relative (the code sums volume terms about the origin)", "trajectories are compared up to and including the population right after the first division: the daughters share their interface exactly and contact decisions between coincident nodes are ties decided by rounding noise", "generator shapes are jittered ellipsoids (a symmetric mesh makes the division axis and plane/edge intersections degenerate)", "reference runs that end in an instability exception are discarded"],
    },
    "C09": {
        "jobs": [{"variant": "asan_cm1_dm0", "workload": "w3", "focus": "C09", "share": 0.7, "chunk": 20},
                 {"variant": "asan_cm1_dm0", "workload": "w1", "focus": "C09", "share": 0.3, "chunk": 6}],
        "budget": {"quick": 75, "thorough": 1200},
        "also": [],
        "crash_kinds": {"terminate": "exception_escaped.terminate", "step_budget": "liveness.step_budget"},
        "rule": "one case = 1-3 mothers divided one by one through divide_cell, or 2-10 cells through cell_divider::run on a team of 1-8 (all generator shapes incl. meshes symmetric about the division plane, axis natural / +-x,+-y,+-z / random, l_min 0.1-0.3 R, jumping clock), optionally with one exception injected at the k-th call of a pipeline stage (add_intersection_points, divide_faces, triangulate_division_interface, create_daughter_cells, compute_poisson_point_cloud, refine_mesh, rebase, initialize_cell_properties); plus divisions occurring inside W1 tissue runs; distinct = distinct hash of the resulting daughters; non-trivial = at least one division attempted",
        "expect_probes": ["division_succeeded", "division_failed_naturally", "division_failed_injected", "simultaneous_divisions"],
        "assumptions": COMMON_ASSUME + ["volume tolerance 0.02 + 3.5 (l_min/R_eff)^2, calibrated once on the unchanged tree (max observed error ~2.2 (l_min/R)^2) and frozen", "daughter nodes may lie up to l_max on the far side of the plane (refinement after the cut merges edges)"],
    },
}
