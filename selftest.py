"""Determinism gate of the simulator: the same seeds must give the same event-log hashes
 - when run in different worker processes with different chunking (1 big chunk vs many small ones),
 - at different degrees of host parallelism (1 process at a time vs 16 at a time).
A mismatch means a source of nondeterminism escaped the simulator (exit 2)."""
import os, sys, json, subprocess, time
from concurrent.futures import ThreadPoolExecutor

SCRATCH_BASE = "/dev/shm" if os.path.isdir("/dev/shm") and os.access("/dev/shm", os.W_OK) else __import__("tempfile").gettempdir()   # scratch only: nothing a later command needs
VERIF = os.path.dirname(os.path.abspath(__file__))
BUILD = os.environ.get("VERIF_BUILD", os.path.join(VERIF, "build"))
WORKLOADS = [("asan_cm1_dm0", "w2", "", 60), ("asan_cm1_dm0", "w1", "", 24), ("asan_cm1_dm0", "w1", "C15", 12), ("asan_cm1_dm0", "wc", "", 24), ("asan_cm1_dm0", "w3", "", 40),
             ("asan_cm1_dm0", "w14", "", 12), ("asan_cm1_dm0", "w16", "", 40), ("asan_cm1_dm0", "w19", "", 12), ("asan_cm1_dm0", "w2f", "", 40), ("asan_cm1_dm0", "w17", "", 200),
             ("asan_cm1_dm0", "w10", "", 12), ("asan_cm1_dm0", "w15x", "", 40), ("asan_cm1_dm0", "w5", "", 6), ("asan_cm0_dm0", "w1", "", 12), ("asan_cm2_dm0", "wc", "", 12), ("asan_cm1_dm1", "w1", "", 12)]


def run(variant, wl, focus, a, b):
    cmd = [os.path.join(BUILD, variant, "simrun"), "--workload", wl, "--seeds", "%d:%d" % (a, b), "--no-minimize"] + (["--focus", focus] if focus else [])
    env = dict(os.environ); env.setdefault("TMPDIR", SCRATCH_BASE)
    p = subprocess.run(cmd, stdout=subprocess.PIPE, stderr=subprocess.DEVNULL, text=True, env=env)
    out = {}
    for line in p.stdout.splitlines():
        if line.startswith("@@RESULT "):
            r = json.loads(line[9:]); out[r["seed"]] = (r["fingerprint"], r["sched_hash"], r["steps"])
    return out


def selftest():
    t0 = time.time(); bad = 0; total = 0; base = 424242
    for variant, wl, focus, n in WORKLOADS:
        if not os.path.exists(os.path.join(BUILD, variant, "simrun")):
            print("selftest: variant %s not built" % variant); return 2
        # pass 1: one process, sequential
        ref = run(variant, wl, focus, base, base + n - 1)
        # pass 2: many processes at once, small chunks
        chunks = [(base + i, min(base + n - 1, base + i + max(1, n // 12) - 1)) for i in range(0, n, max(1, n // 12))]
        with ThreadPoolExecutor(16) as ex:
            parts = list(ex.map(lambda c: run(variant, wl, focus, c[0], c[1]), chunks))
        got = {}
        for p in parts: got.update(p)
        for s in ref:
            total += 1
            if s not in got or got[s] != ref[s]:
                bad += 1; print("NONDETERMINISTIC %s/%s%s seed %d: %s vs %s" % (variant, wl, "/" + focus if focus else "", s, ref[s], got.get(s)))
        print("selftest %s/%s%s: %d seeds compared" % (variant, wl, "/" + focus if focus else "", len(ref)), flush=True)
    print("selftest: %d plans executed twice (1 process vs 16 concurrent processes, different chunking), %d mismatches, %.0fs" % (total, bad, time.time() - t0))
    return 2 if bad else 0


if __name__ == "__main__":
    sys.exit(selftest())
