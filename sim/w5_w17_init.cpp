// W5 : initial surface reconstruction (C13) through the real simulation_initializer (files -> reader ->
//      triangulation with retries -> validation) and through initial_triangulation directly (team context).
// W17: start-up on mutated input files (C17): systematic single-fault enumeration + random multi-faults.
#include "harness/tissue.hpp"
#include "harness/iofmt.hpp"
#include "simulation_initializer.hpp"
#include "initial_triangulation.hpp"
#include <regex>

using namespace hz;

namespace {

// ------------------------------------------------------------------ polyhedra (polygonal faces, random windings)
static InCell poly_cube(sim::Rng& r) { InCell c; c.type = 0; static const double v[8][3] = {{-1,-1,-1},{1,-1,-1},{1,1,-1},{-1,1,-1},{-1,-1,1},{1,-1,1},{1,1,1},{-1,1,1}}; for (auto& p : v) c.m.V.push_back(V3(p[0], p[1], p[2])); c.polys = {{0,3,2,1},{4,5,6,7},{0,1,5,4},{2,3,7,6},{1,2,6,5},{0,4,7,3}}; return c; }
static InCell poly_prism(int n, sim::Rng& r) { InCell c; c.type = 0; for (int k = 0; k < 2; k++) for (int i = 0; i < n; i++) { double a = 6.283185307179586 * i / n; c.m.V.push_back(V3(std::cos(a), std::sin(a), k ? 0.8 : -0.8)); } std::vector<unsigned> bot, top; for (int i = 0; i < n; i++) { bot.push_back(n - 1 - i); top.push_back(n + i); c.polys.push_back({(unsigned)i, (unsigned)((i + 1) % n), (unsigned)(n + (i + 1) % n), (unsigned)(n + i)}); } c.polys.push_back(bot); c.polys.push_back(top); return c; }
static InCell poly_from_tri(const TriMesh& m) { InCell c; c.type = 0; c.m = m; return c; }
static void random_windings(InCell& c, sim::Rng& r) { if (c.polys.empty()) for (auto& t : c.m.F) c.polys.push_back({t[0], t[1], t[2]}); for (auto& f : c.polys) { if (r.coin(0.5)) std::reverse(f.begin(), f.end()); size_t k = r.below(f.size()); std::rotate(f.begin(), f.begin() + k, f.end()); } }
static TriMesh triangulated(const InCell& c) {   // fan triangulation about the face centroid, only used by the oracle (distance to the input surface, volume)
    TriMesh t; t.V = c.m.V; std::vector<std::vector<unsigned>> F = c.polys; if (F.empty()) for (auto& q : c.m.F) F.push_back({q[0], q[1], q[2]});
    for (auto& f : F) { if (f.size() == 3) { t.F.push_back({f[0], f[1], f[2]}); continue; } V3 ctr; for (unsigned v : f) ctr += c.m.V[v]; ctr = ctr / (double)f.size(); unsigned ci = (unsigned)t.V.size(); t.V.push_back(ctr); for (size_t i = 0; i < f.size(); i++) t.F.push_back({f[i], f[(i + 1) % f.size()], ci}); }
    return t;
}
static double abs_volume(const TriMesh& t) { // windings are random: orient by adjacency is not needed for |V| of a convex-ish shape? use divergence with consistent orientation from the generator instead
    return std::fabs(t.signed_volume()); }

static InCell gen_poly(int kind, int res, sim::Rng& r, double& true_volume, int windings) {
    InCell c;
    switch (kind) {
        case 0: c = poly_cube(r); break;
        case 1: c = poly_prism(res == 1 ? 6 : 9, r); break;
        case 2: c = poly_from_tri(icosphere(res)); break;
        case 3: { TriMesh m = icosphere(res); m.apply(M33::scale(r.uni(0.7, 1.5), r.uni(0.7, 1.5), r.uni(0.7, 1.5)), V3()); c = poly_from_tri(m); break; }
        case 4: c = poly_from_tri(cube_mesh(res == 1 ? 2 : 3)); break;
        default: { sim::Rng q = r; c = poly_from_tri(gen_shape(SH_DENTED, res, q)); break; }
    }
    true_volume = abs_volume(triangulated(c));     // generator orientation is consistent here (before the windings are randomised)
    if (windings == 2) random_windings(c, r);
    else { if (c.polys.empty()) for (auto& t : c.m.F) c.polys.push_back({t[0], t[1], t[2]}); if (windings == 1) for (auto& f : c.polys) std::reverse(f.begin(), f.end()); }
    return c;
}

// closed-looking triangulated inputs that are NOT a 2-manifold sphere (only offered with triangulation disabled, one cell):
// 1 two tetrahedra sharing one vertex, 2 two cubes sharing one edge (4 faces on it), 3 a sphere with one triangle missing, 4 a sphere with a fin on one edge
static InCell bad_input(int kind, sim::Rng& r) {
    InCell c; c.type = 0;
    if (kind == 1) { TriMesh m; m.V = {V3(0,0,0), V3(1,0,0), V3(0,1,0), V3(0,0,1), V3(-1,0,0), V3(0,-1,0), V3(0,0,-1)}; m.F = {{0,2,1},{0,1,3},{1,2,3},{0,3,2},{0,4,5},{0,6,4},{4,6,5},{0,5,6}}; c.m = m; }
    else if (kind == 2) { TriMesh a = cube_mesh(1), b = cube_mesh(1); double lo = 1e300, hi = -1e300; for (auto& p : a.V) { lo = std::min(lo, p.x); hi = std::max(hi, p.x); } V3 sh(hi - lo, hi - lo, 0); c.m = a; std::map<std::array<long, 3>, unsigned> idx; auto key = [&](const V3& p) { return std::array<long, 3>{std::lround(p.x * 1e6), std::lround(p.y * 1e6), std::lround(p.z * 1e6)}; };
        for (unsigned i = 0; i < a.V.size(); i++) idx[key(a.V[i])] = i; std::vector<unsigned> map(b.V.size()); for (unsigned i = 0; i < b.V.size(); i++) { V3 q = b.V[i] + sh; auto it = idx.find(key(q)); if (it != idx.end()) map[i] = it->second; else { map[i] = (unsigned)c.m.V.size(); c.m.V.push_back(q); idx[key(q)] = map[i]; } } for (auto& f : b.F) c.m.F.push_back({map[f[0]], map[f[1]], map[f[2]]}); }
    else if (kind == 3) { c.m = icosphere(1); c.m.F.erase(c.m.F.begin() + (long)r.below(c.m.F.size())); }
    else { c.m = icosphere(1); auto f = c.m.F[r.below(c.m.F.size())]; unsigned nv = (unsigned)c.m.V.size(); c.m.V.push_back((c.m.V[f[0]] + c.m.V[f[1]]) * 0.8); c.m.F.push_back({f[1], f[0], nv}); }
    return c;
}

RunResult run_w5(const Plan& pl) {
    RunResult res; sim::RunConfig cfg = config_from(pl); cfg.step_budget = 6000000000ull; sim::clear_faults(); sim::begin_run(cfg);
    Fnv log;
    try {
        sim::Rng r(pl.seed * 2654435761ull + 99);
        int n = pl.geti("ncells", 1); double size = pl.get("size", 5e-6), rho = pl.get("rho", 0.3), lmin = rho * size; bool tri_on = pl.geti("triangulate", 1) != 0; int mode = pl.geti("mode", 0);
        std::vector<InCell> in; std::vector<double> vol; std::vector<TriMesh> ref;
        for (int k = 0; k < n; k++) { double v; InCell c = gen_poly(pl.geti("c" + std::to_string(k) + "_poly", 0), pl.geti("c" + std::to_string(k) + "_res", 1), r, v, pl.geti("windings", 0)); M33 R = random_rotation(r); if (pl.geti("axis_aligned", 0)) R = M33::scale(1, 1, 1); V3 t(3.0 * size * k + pl.get("off", 0), pl.get("off", 0) * 0.3, 0); for (auto& p : c.m.V) p = (R * p) * size + t; in.push_back(c); vol.push_back(v * size * size * size); ref.push_back(triangulated(c)); }
        int bad = pl.geti("bad_input", 0);
        if (bad) { InCell c = bad_input(bad, r); for (auto& p : c.m.V) p = p * size; in.assign(1, c); n = 1; res.probes.hit("bad_input_offered"); }
        std::string dir = g_scratch + "/w5"; mkdir(dir.c_str(), 0700); std::string vp = dir + "/in.vtk"; spit(vp, write_vtk(in, "%.12g"));
        auto types = make_types(pl); global_simulation_parameters P = make_params(pl, g_scratch + "/out5"); P.input_mesh_path_ = vp; P.min_edge_len_ = lmin; P.perform_initial_triangulation_ = tri_on;
        bool all_tri = true; for (auto& c : in) for (auto& f : c.polys) if (f.size() != 3) all_tri = false;
        // injected consecutive failures of the reconstruction (forces retries)
        // inject_point: 0 = inside the reconstruction (before the cell object exists), 1 = inside cell::initialize_cell_properties (after it was created), 2 = the first half here, the rest there
        int nfail = pl.geti("inject_failures", 0), ipoint = pl.geti("inject_point", 0); if (!tri_on && ipoint != 1) ipoint = 1;
        { int a = ipoint == 0 ? nfail : (ipoint == 1 ? 0 : nfail / 2); for (int i = 1; i <= a; i++) sim::add_fault({sim::PH_TRIANGULATE_SURFACE, (uint64_t)i, pl.geti("inject_type", sim::EX_INIT_TRI)}); for (int i = 1; i <= nfail - a; i++) sim::add_fault({sim::PH_INIT_CELL_PROPS, (uint64_t)i, pl.geti("inject_type", sim::EX_INIT_TRI)}); }
        std::vector<cell_ptr> cells; std::string outcome = "ok";
        try {
            if (mode == 0) { simulation_initializer si(P, types, false); cells = si.get_cell_lst(); }
            else { // direct call from the master: the uniform sampling then runs on a real team (user-defined reduction)
                for (int k = 0; k < n; k++) { mesh m; m.node_pos_lst = in[k].m.flat_pos(); m.face_point_ids = in[k].polys; mesh tm = initial_triangulation::triangulate_surface(lmin, 3 * lmin, m, k); auto c = std::make_shared<epithelial_cell>(tm, (unsigned)k, types[0]); c->initialize_cell_properties(); cells.push_back(c); }
            }
        } catch (intialization_exception& e) { outcome = "init_exception"; }
        catch (std::exception& e) { outcome = std::string("std_exception:") + e.what(); }
        if (getenv("W5_CALIB")) fprintf(stderr, "OUTCOME %s\n", outcome.c_str());
        uint64_t attempts = sim::stats().phase_calls[sim::PH_TRIANGULATE_SURFACE]; res.sim_iterations = attempts;
        res.probes.hit("attempts", attempts); res.probes.hit(outcome.substr(0, outcome.find(':')));
        res.faults_fired["exception_in_triangulate_surface"] = sim::stats().faults_fired;
        if (mode == 0) {
            if (outcome.compare(0, 13, "std_exception") == 0) res.fail("C13", "failure_type", "initialisation failed with an exception other than the initialisation exception: " + outcome);
            if (tri_on && attempts > 10 * (uint64_t)n) res.fail("C13", "retry_bound", "more than 10 reconstruction attempts for one cell");
            if (nfail >= 10 && n == 1 && outcome == "ok") res.fail("C13", "retries_exhausted", "10 consecutive failed attempts did not end in an initialisation exception");
            if (nfail >= 10 && n == 1 && sim::stats().faults_fired >= 10) res.probes.hit(ipoint == 0 ? "ten_failures_before_cell_exists" : "ten_failures_some_after_cell_exists");
            if (!tri_on && !all_tri && outcome == "ok") res.fail("C13", "untriangulated_accepted", "a polygonal input was accepted although initial triangulation is disabled");
        }
        if (outcome == "ok") {
            if (cells.size() != (size_t)n) res.fail("C13", "cell_count", "initialisation returned another number of cells than the input holds");
            for (size_t k = 0; k < cells.size() && res.viol.empty(); k++) {
                cell& c = *cells[k]; TopoOpts o; o.t7_volume = false; std::string e = check_topology(c, o);
                if (!e.empty()) { res.fail("C13", "handed_over_" + e.substr(0, e.find(':')), "cell " + std::to_string(k) + " handed to the solver: " + e); break; }
                if (getenv("W5_CALIB")) fprintf(stderr, "CELL %zu: %zu live nodes of %zu slots, %zu faces\n", k, c.get_nb_of_nodes(), c.get_node_lst().size(), c.get_nb_of_faces());
                CellView v = view_of(c); Geo g = geometry(v); CellView rv; rv.pos = ref[k].V; rv.nused.assign(ref[k].V.size(), 1); rv.tri = ref[k].F; rv.fused.assign(ref[k].F.size(), 1);
                { double Ld = (g.bmax - g.bmin).norm(); if (g.volume < -1e-6 * Ld * Ld * Ld) { std::ostringstream d; d << "cell " << k << " handed to the solver is inside-out (signed volume " << g.volume << ", diameter " << Ld << ")"; res.fail("C13", "handed_over_inside_out", d.str()); break; } if (!(g.volume > 1e-6 * Ld * Ld * Ld)) res.probes.hit("flat_cell_handed_over_coarse"); }   // a (near) zero volume sheet is judged by the volume clause where fidelity applies (l_min <= size/4) CellView rv; rv.pos = ref[k].V; rv.nused.assign(ref[k].V.size(), 1); rv.tri = ref[k].F; rv.fused.assign(ref[k].F.size(), 1);
                Geo gi = geometry(rv); double relv = std::fabs(g.volume - vol[k]) / vol[k];
                { uint64_t ppm = (uint64_t)(relv * 1e6); auto& q = res.probes.c["vol_err_ppm_max"]; q = std::max(q, ppm); }
                if (tri_on && rho > 0.25 + 1e-9) res.probes.hit("fidelity_coarse_volume_only");
                // the volume clause holds at every ratio offered (observed error <= 4.2 rho^2 over ~350 reconstructions with rho 0.08..0.35, tolerance 0.02 + 6 rho^2 < 1);
                // bounding box and node-to-surface distance are judged where the mesh resolves the cell (l_min <= size/4)
                double tol_v = 0.02 + 6 * rho * rho;
                if (tri_on && rho > 0.25 + 1e-9 && tol_v < 0.9 && relv > tol_v) { std::ostringstream d; d << "cell " << k << ": reconstructed volume " << g.volume << " vs input " << vol[k] << " (relative " << relv << " > " << tol_v << " at l_min/size " << rho << ")"; res.fail("C13", "volume", d.str()); break; }
                if (tri_on && rho <= 0.25 + 1e-9) {
                    if (relv > tol_v) { std::ostringstream d; d << "cell " << k << ": reconstructed volume " << g.volume << " vs input " << vol[k] << " (relative " << relv << " > " << tol_v << " at l_min/size " << rho << ")"; res.fail("C13", "volume", d.str()); }
                    double lmax = 3 * lmin; for (int q = 0; q < 3; q++) if (g.bmin[q] < gi.bmin[q] - lmax || g.bmax[q] > gi.bmax[q] + lmax || g.bmin[q] > gi.bmin[q] + 2 * lmax || g.bmax[q] < gi.bmax[q] - 2 * lmax) { res.fail("C13", "bounding_box", "bounding box of the reconstructed cell is off the input's by more than l_max outward / 2 l_max inward"); break; }
                    std::vector<std::vector<unsigned>> nb(v.pos.size()); for (size_t f = 0; f < v.tri.size(); f++) if (v.fused[f]) for (int q = 0; q < 3; q++) { nb[v.tri[f][q]].push_back(v.tri[f][(q + 1) % 3]); nb[v.tri[f][q]].push_back(v.tri[f][(q + 2) % 3]); }
                    auto is_centre = [&](size_t i) { std::set<unsigned> s(nb[i].begin(), nb[i].end()); if (s.empty()) return false; V3 m; for (unsigned q : s) m += v.pos[q]; m = m / (double)s.size(); return (m - v.pos[i]).norm() < 1e-9 * lmin; };
                    // sample points lie on the input surface; hole-fill centres (mean of the hole's nodes) may sit up to 1.5 l_min off it
                    for (size_t i = 0; i < v.pos.size() && res.viol.empty(); i++) if (v.nused[i]) { double dd = dist_to_mesh(rv, v.pos[i]); bool ctr = dd > 0.05 * lmin && is_centre(i); if (ctr) res.probes.hit("hole_fill_centres"); if (dd > (ctr ? 1.5 : 0.05) * lmin) { std::ostringstream d; d << "a node of reconstructed cell " << k << " lies " << dd << " off the input surface (l_min " << lmin << (ctr ? ", hole-fill centre" : ", sample point") << ")"; res.fail("C13", "node_on_surface", d.str()); } }
                    for (size_t i = 0; i < v.pos.size() && res.viol.empty(); i++) if (v.nused[i]) for (size_t j = i + 1; j < v.pos.size(); j++) if (v.nused[j] && (v.pos[i] - v.pos[j]).norm() < lmin * (1 - 1e-9)) { if (is_centre(i) || is_centre(j)) { res.probes.hit("hole_fill_centre_close"); continue; } std::ostringstream d; d << "two sample points of cell " << k << " are " << (v.pos[i] - v.pos[j]).norm() << " apart (< l_min " << lmin << ")"; res.fail("C13", "poisson_distance", d.str()); break; }
                } else if (!tri_on && bad) { res.probes.hit("bad_input_accepted_as_valid_cell");
                } else if (!tri_on) {
                    if (v.tri.size() != ref[k].F.size() || relv > 1e-9) res.fail("C13", "same_surface", "with triangulation disabled the cell is not the input surface");
                }
                Fnv h; hash_cell(h, c); log.add(h.h);
            }
        }
    } catch (std::exception& e) { res.fail("C10", "harness.unexpected_exception", e.what()); }
    sim::clear_faults();
    res.st = sim::end_run(); res.fingerprint = log.h ^ (uint64_t)res.sim_iterations; res.nontrivial = res.sim_iterations > 0 || pl.geti("triangulate", 1) == 0;
    return res;
}

Plan gen_w5(uint64_t seed, const std::string& tier, const std::string& focus) {
    Plan pl; pl.workload = "w5"; pl.seed = seed; sim::Rng r(seed * 97 + 31337);
    bool thorough = tier == "thorough";
    static const double rhos[] = {0.1, 0.12, 0.15, 0.2, 0.25, 0.3, 0.35}; pl.p["rho"] = rhos[r.below(thorough ? 7 : 7)]; if (thorough && r.coin(0.2)) pl.p["rho"] = r.uni(0.08, 0.15);
    pl.p["size"] = r.coin(0.7) ? 5e-6 : 1.0; pl.p["triangulate"] = r.coin(0.78); pl.p["mode"] = r.coin(0.7) ? 0 : 1; if (!pl.geti("triangulate")) pl.p["mode"] = 0;
    int n = r.coin(0.7) ? 1 : r.range(2, 3); pl.p["ncells"] = n; for (int k = 0; k < n; k++) { pl.p["c" + std::to_string(k) + "_poly"] = (int)r.below(6); pl.p["c" + std::to_string(k) + "_res"] = r.coin(0.7) ? 1 : 2; }
    if (pl.geti("triangulate") && r.coin(0.06)) { pl.p["rho"] = r.uni(0.075, 0.09); pl.p["ncells"] = 1; }   // a fine reconstruction: sampling grids of more than 10^4 voxels (shape extent 2 size, voxel l_min)
    if (r.coin(0.2)) pl.p["off"] = pl.p["size"] * std::pow(10.0, r.range(0, 2));
    if (r.coin(0.2)) pl.p["axis_aligned"] = 1;     // faces of cubes and prisms parallel to the coordinate planes (the bounding box of the sampling grids touches whole faces)
    { double u = r.uni(); pl.p["windings"] = u < 0.7 ? 0 : (u < 0.85 ? 1 : 2); }
    if (pl.geti("triangulate") && pl.geti("mode") == 0 && r.coin(0.3)) { pl.p["inject_failures"] = r.coin(0.3) ? 10 : r.range(1, 9); static const int ty[] = {sim::EX_INIT_TRI, sim::EX_BPA, sim::EX_MESH_INTEGRITY}; pl.p["inject_type"] = ty[r.below(3)]; if (pl.geti("inject_failures") == 10) pl.p["ncells"] = 1; }
    if (pl.p.count("inject_failures")) pl.p["inject_point"] = (int)r.below(3);
    if (!pl.geti("triangulate")) { double u = r.uni(); if (u < 0.35) { pl.p["bad_input"] = r.range(1, 4); pl.p["ncells"] = 1; } else if (u < 0.7) { pl.p["inject_failures"] = r.coin(0.4) ? 10 : r.range(1, 9); pl.p["inject_point"] = 1; static const int ty[] = {sim::EX_INIT_TRI, sim::EX_BPA, sim::EX_MESH_INTEGRITY}; pl.p["inject_type"] = ty[r.below(3)]; if (pl.geti("inject_failures") == 10) pl.p["ncells"] = 1; pl.p["windings"] = 0; } }
    pl.p["clock"] = 1 + (int)r.below(2); draw_schedule(pl, r, 8);   // retries need a clock that advances (the sampling seed)
    return pl;
}
std::vector<Plan> shrink_w5(const Plan& p) { std::vector<Plan> out; if (p.geti("team", 1) > 1) { Plan q = p; q.p["team"] = 1; q.p["strategy"] = 0; out.push_back(q); } int n = p.geti("ncells", 1); if (n > 1) { Plan q = p; q.p["ncells"] = n - 1; out.push_back(q); } if (p.geti("clock", 0)) { Plan q = p; q.p["clock"] = 0; out.push_back(q); } return out; }

// ------------------------------------------------------------------------------------------------ W17
struct BasePair { std::string vtk, xml; };
static std::vector<BasePair>& bases() {
    static std::vector<BasePair> B;
    if (!B.empty()) return B;
    sim::Rng r(4242);
    for (int b = 0; b < 3; b++) {
        std::vector<InCell> cells; int n = b + 1;
        for (int k = 0; k < n; k++) { InCell c; if (b == 0) { TriMesh m; m.V = {V3(0, 0, 0), V3(1, 0, 0), V3(0, 1, 0), V3(0, 0, 1)}; m.F = {{0, 2, 1}, {0, 1, 3}, {1, 2, 3}, {0, 3, 2}}; c = poly_from_tri(m); } else if (k == 0) c = poly_from_tri(cube_mesh(1)); else if (k == 1) c = (b == 2) ? poly_from_tri(cube_mesh(2)) : poly_cube(r); else c = poly_from_tri(icosphere(0)); /* base 2 has triangulation off: every cell must already be triangulated for the pair to be valid */ c.type = (b == 2) ? k : 0; for (auto& p : c.m.V) p = p * 5e-6 + V3(2e-5 * k, 0, 0); cells.push_back(c); }
        BasePair bp; bp.vtk = write_vtk(cells, "%.6g");
        XmlSpec xs; xs.mesh_path = "@MESH@"; xs.out_path = "@OUT@"; xs.triangulate = (b == 1) ? 1 : 0; xs.lmin = (b == 1) ? 2.5e-6 : 1e-6; xs.ntypes = (b == 2) ? 5 : 2; bp.xml = write_xml(xs);
        if (b == 1) { std::vector<InCell> c2 = {cells[0]}; bp.vtk = write_vtk(c2, "%.6g"); }
        B.push_back(bp);
    }
    return B;
}
struct Span { size_t a, b; };
static std::vector<Span> tokens_of(const std::string& s, bool xml) {   // number / keyword tokens (vtk) or element texts and tag names (xml); the two path placeholders are never touched
    std::vector<Span> t; size_t i = 0, n = s.size();
    if (!xml) { while (i < n) { while (i < n && isspace((unsigned char)s[i])) i++; size_t a = i; while (i < n && !isspace((unsigned char)s[i])) i++; if (i > a) t.push_back({a, i}); } return t; }
    while (i < n) { if (s[i] == '<') { size_t a = i + 1; if (a < n && (s[a] == '/' || s[a] == '?')) a++; size_t b = a; while (b < n && (isalnum((unsigned char)s[b]) || s[b] == '_')) b++; if (b > a) t.push_back({a, b}); while (i < n && s[i] != '>') i++; i++; size_t c = i; while (c < n && s[c] != '<') c++; size_t x = i, y = c; while (x < y && isspace((unsigned char)s[x])) x++; while (y > x && isspace((unsigned char)s[y - 1])) y--; if (y > x && s.compare(x, y - x, "@MESH@") != 0 && s.compare(x, y - x, "@OUT@") != 0) t.push_back({x, y}); i = c; } else i++; }
    return t;
}
static const char* REPL[] = {"-1", "0", "4294967296", "99999999999999999999", "1e999", "nan", "abc", "", "32768", "65535", "2147483648", "1431655765", "1431655766", "<!-- 1 -->", "<!-- 1 -->1"};   // (then: first values that do not fit a signed / unsigned 16-bit and a signed 32-bit integer; the two values around 2^32/3, where three coordinates per point wrap a 32-bit offset; an XML comment instead of / in front of an element's text)
static const size_t NREPL = sizeof(REPL) / sizeof(REPL[0]), PER_TOKEN = 2 + NREPL;
// the enumeration: for each base b, file f: truncation at every offset; per token: delete, duplicate, 15 replacements; byte flips of the first 400 bytes
struct EnumInfo { std::vector<size_t> start; size_t total = 0; };
static size_t count_file(const std::string& s, bool xml) { size_t nt = tokens_of(s, xml).size(); return s.size() + nt * PER_TOKEN + std::min<size_t>(400, s.size()); }
static const EnumInfo& enum_info() { static EnumInfo E; if (E.total) return E; for (auto& b : bases()) { E.start.push_back(E.total); E.total += count_file(b.vtk, false); E.start.push_back(E.total); E.total += count_file(b.xml, true); } return E; }
static std::string mutate_one(const std::string& s, bool xml, size_t idx, std::string& desc) {
    if (idx < s.size()) { desc = "truncate@" + std::to_string(idx); return s.substr(0, idx); } idx -= s.size();
    auto T = tokens_of(s, xml);
    if (idx < T.size() * PER_TOKEN) { Span sp = T[idx / PER_TOKEN]; int k = (int)(idx % PER_TOKEN); std::string tok = s.substr(sp.a, sp.b - sp.a), rep; if (k == 0) { rep = ""; desc = "delete"; } else if (k == 1) { rep = tok + " " + tok; desc = "duplicate"; } else { rep = REPL[k - 2]; desc = std::string("replace->'") + rep + "'"; } desc += " token#" + std::to_string(idx / PER_TOKEN) + " '" + tok.substr(0, 24) + "'"; return s.substr(0, sp.a) + rep + s.substr(sp.b); }
    idx -= T.size() * PER_TOKEN; std::string o = s; if (idx < o.size()) { o[idx] = (char)(o[idx] ^ (1 << (idx % 7))); desc = "bitflip@" + std::to_string(idx); } return o;
}

RunResult run_w17(const Plan& pl) {
    RunResult res; sim::RunConfig cfg = config_from(pl); cfg.step_budget = (uint64_t)pl.get("step_budget", 3e8); cfg.team = pl.geti("team", 1); sim::clear_faults();
    const EnumInfo& E = enum_info(); res.probes.c["enum_space"] = E.total;
    int b = pl.geti("base", 0); std::string vtk = bases()[b].vtk, xml = bases()[b].xml, desc;
    for (const Op& op : pl.ops) { if (op.name != "mut") continue; bool isx = op.arg(0) != 0; std::string d; (isx ? xml : vtk) = mutate_one(isx ? xml : vtk, isx, (size_t)op.arg(1), d); desc += (isx ? "xml:" : "vtk:") + d + "; "; }
    for (const Op& op : pl.ops) if (op.name == "random_bytes") { sim::Rng r((uint64_t)op.arg(1)); std::string s; size_t n = (size_t)op.arg(2); for (size_t i = 0; i < n; i++) s += (char)(r.coin(0.7) ? ("0123456789 .-e\n<>/abcCELPOINTS_"[r.below(31)]) : r.below(256)); (op.arg(0) != 0 ? xml : vtk) = s; desc += "random bytes; "; }
    std::string dir = g_scratch + "/w17"; mkdir(dir.c_str(), 0700); std::string vp = dir + "/m.vtk", xp = dir + "/p.xml", out = g_scratch + "/out17";
    auto sub = [&](std::string s) { size_t p; while ((p = s.find("@MESH@")) != std::string::npos) s.replace(p, 6, vp); while ((p = s.find("@OUT@")) != std::string::npos) s.replace(p, 5, out); return s; };
    spit(vp, vtk); spit(xp, sub(xml));
    // a well-formed file that merely describes a cell thousands of l_min across (a mutated coordinate or l_min) legitimately
    // needs memory/time proportional to area / l_min^2 when the initial triangulation is on: not a malformed-input case
    bool tri_maybe_on = true; { size_t p = xml.find("<perform_initial_triangulation>"); if (p != std::string::npos) { const char* q = xml.c_str() + p + 31; char* e = nullptr; long v = strtol(q, &e, 10); if (e != q && v == 0) tri_maybe_on = false; } }
    if (tri_maybe_on) {
        double lm = 0; { size_t p = xml.find("<min_edge_length>"); if (p != std::string::npos) lm = strtod(xml.c_str() + p + 17, nullptr); }
        // lenient scan (like the reader's number regex): numeric prefixes of the tokens between POINTS and CELLS
        // numbers as the reader's own lenient pattern finds them between the POINTS line and CELLS ("%e-06" is read as -6)
        std::vector<double> pts; { size_t a = vtk.find("POINTS"), b = vtk.find("CELLS"); if (a != std::string::npos) { size_t nl = vtk.find('\n', a); { static const std::regex hdr(R"(POINTS ([0-9]+) ([a-z]+))"); std::smatch mh; if (std::regex_search(vtk, mh, hdr)) nl = (size_t)(mh.position(0) + mh.length(0)); }   /* the reader takes the coordinates right after this match, not after the end of the line */ if (nl != std::string::npos && (b == std::string::npos || nl < b)) { std::string sec = vtk.substr(nl, b == std::string::npos ? std::string::npos : b - nl); static const std::regex num(R"(([-\+]?[\d.]+(?:[e|E][-\+]?\d+)?))"); for (auto it = std::sregex_iterator(sec.begin(), sec.end(), num); it != std::sregex_iterator(); ++it) { double v = strtod(it->str().c_str(), nullptr); if (std::isfinite(v)) pts.push_back(v); } } } }
        { size_t a = vtk.find("POINTS"); long np = a == std::string::npos ? 0 : strtol(vtk.c_str() + a + 6, nullptr, 10); if (np > 0 && pts.size() > (size_t)np * 3) pts.resize((size_t)np * 3); }   // the reader only uses the points that the faces can index
        bool huge = false; double amax = 0; for (double v : pts) amax = std::max(amax, std::fabs(v));
        if (lm > 0 && amax > 30 * lm && amax < 1e15 * lm) huge = true;
        if (huge) { res.probes.hit("skipped_wellformed_but_huge_vs_lmin"); res.sim_iterations = 1; Fnv h; h.adds(vtk); h.adds(xml); res.fingerprint = h.h; res.nontrivial = false; return res; }
    }
    if (getenv("W17_DUMP")) { fprintf(stderr, "---- vtk ----\n%s\n", vtk.substr(0, 700).c_str()); }
    if (getenv("W17_DESC")) { fprintf(stderr, "W17 base=%d mutations: %s\n", b, desc.c_str()); fflush(stderr); }
    sim::begin_run(cfg);
    std::string outcome;
    try {
        // what main() does, minus run(): load, initialise, construct the solver
        simulation_initializer si(xp, false);
        auto prm = si.get_simulation_parameters();
        // "completes" means a tissue the solver can use: a face list that is not a closed surface (a point id replaced by another valid
        // one, a triangle missing or doubled) is malformed input and has to be diagnosed, not handed over
        for (auto& c : si.get_cell_lst()) {
            if (!c) { res.fail("C17", "completed_with_missing_cell", "start-up completed but a cell of the input was not built: " + desc); break; }
            TopoOpts o; o.t6_bookkeeping = false; o.t7_volume = false; std::string e = check_topology(*c, o);
            if (!e.empty() && (e.compare(0, 2, "T1") == 0 || e.compare(0, 2, "T2") == 0 || e.compare(0, 2, "T3") == 0)) { res.fail("C17", "completed_with_corrupt_surface", "start-up completed and handed over a cell whose face list is not a closed surface (" + e + "): " + desc); break; }
        }
        if (prm.output_folder_path_ == out) { solver s(prm, si.get_cell_lst(), 1, true, false); outcome = "completed"; }
        else outcome = "completed_initializer_only";     // (a mutated output path is never handed to the solver: it would remove_all() it)
    }
    catch (std::exception& e) { outcome = "exception"; }
    catch (...) { outcome = "foreign_exception"; res.fail("C17", "exception_type", "start-up threw something that is not derived from std::exception: " + desc); }
    res.st = sim::end_run(); res.probes.hit(outcome); res.sim_iterations = 1;
    Fnv h; h.adds(vtk); h.adds(xml); res.fingerprint = h.h; res.nontrivial = !pl.ops.empty();
    return res;
}

Plan gen_w17(uint64_t seed, const std::string& tier, const std::string& focus) {
    Plan pl; pl.workload = "w17"; pl.seed = seed; const EnumInfo& E = enum_info();
    sim::Rng r(seed * 31 + 7); pl.p["team"] = 1 + (int)(seed % 3);
    if (focus == "random") {            // exploration on top: multi-fault combinations and random byte strings
        pl.p["base"] = (int)r.below(bases().size()); int k = r.range(1, 4);
        if (r.coin(0.25)) pl.ops.push_back({"random_bytes", {(double)r.below(2), (double)r.below(1u << 30), (double)r.range(0, 3000)}});
        else for (int i = 0; i < k; i++) { bool x = r.coin(0.5); const std::string& s = x ? bases()[pl.geti("base")].xml : bases()[pl.geti("base")].vtk; pl.ops.push_back({"mut", {x ? 1.0 : 0.0, (double)r.below(count_file(s, x))}}); }
        return pl;
    }
    // systematic: consecutive seeds walk the whole single-fault space once (scattered by a multiplier coprime to its size)
    size_t mult = 1000003; while (std::__gcd(mult, E.total) != 1) mult++;
    size_t idx = (size_t)((seed % E.total) * mult % E.total);
    size_t slot = 0; while (slot + 1 < E.start.size() && E.start[slot + 1] <= idx) slot++;
    pl.p["base"] = (int)(slot / 2); pl.p["enum_index"] = (double)idx; pl.ops.push_back({"mut", {(double)(slot % 2), (double)(idx - E.start[slot])}});
    return pl;
}

Register reg_w5({"w5", gen_w5, run_w5, shrink_w5});
Register reg_w17({"w17", gen_w17, run_w17, nullptr});
}
