// Interface between the simulator runtime (simgomp.cpp: deterministic OpenMP runtime,
// simulated clock/rand, instrumentation callbacks, fault injection) and the harness.
#pragma once
#include <cstdint>
#include <string>
#include <vector>
#include <functional>
#include <map>

namespace sim {

// ---- deterministic PRNG (splitmix64 / xoshiro-like; one integer decides everything)
struct Rng {
    uint64_t s;
    explicit Rng(uint64_t seed = 1) : s(seed * 0x9E3779B97F4A7C15ull + 0x1234567ull) {}
    uint64_t next() { uint64_t z = (s += 0x9E3779B97F4A7C15ull); z = (z ^ (z >> 30)) * 0xBF58476D1CE4E5B9ull; z = (z ^ (z >> 27)) * 0x94D049BB133111EBull; return z ^ (z >> 31); }
    uint64_t below(uint64_t n) { return n ? next() % n : 0; }
    int range(int lo, int hi) { return lo + (int)below((uint64_t)(hi - lo + 1)); }   // inclusive
    double uni() { return (next() >> 11) * (1.0 / 9007199254740992.0); }
    double uni(double a, double b) { return a + (b - a) * uni(); }
    bool coin(double p) { return uni() < p; }
    double gauss() { double u = uni(), v = uni(); if (u < 1e-300) u = 1e-300; return __builtin_sqrt(-2 * __builtin_log(u)) * __builtin_cos(6.283185307179586 * v); }
    Rng fork() { return Rng(next()); }
};

// ---- scheduling
enum Strategy { RTC = 0, RTC_PERM = 1, PCT = 2, RW = 3, STARVE = 4 };
const char* strategy_name(int s);

enum ClockPolicy { CLK_FROZEN_REGION = 0, CLK_TICKING = 1, CLK_JUMPY = 2 };

struct RunConfig {
    uint64_t seed = 1;          // scheduler PRNG seed
    int team = 1;               // forced team size for every parallel region (0 = what the code asks for)
    int strategy = RTC;
    int pct_depth = 2;          // PCT: number of priority change points
    double rw_p = 1e-3;         // RW: switch probability per scheduling point
    int starve = 0;             // STARVE: starved member
    int clock_policy = CLK_FROZEN_REGION;
    int64_t clock_base = 1700000000000000000ll;
    uint64_t step_budget = 0;   // 0 = unlimited; exceeded -> sim::StepBudgetExceeded thrown at next point on master
    bool free_running = false;  // TSan mode: members really run concurrently
};

// thrown (from the instrumentation hook, master thread, outside regions) when the logical
// step budget of a run is exhausted: deterministic hang detection
struct StepBudgetExceeded { uint64_t steps; };

// ---- fault plan: throw at the entry of the k-th call (1-based, counted per run) of a phase function
struct ExcFault { int phase; uint64_t call_index; int exc_type; bool fired = false; };
enum ExcType { EX_DIVISION = 0, EX_BPA = 1, EX_MESH_INTEGRITY = 2, EX_MESH_WRITER = 3, EX_INIT_TRI = 4, EX_RUNTIME = 5 };

// ---- phases: functions of /repo recognised by symbol name at their first entry
enum Phase {
    PH_NONE = 0,
    PH_DIVIDER_RUN, PH_DIVIDE_CELL, PH_REFINE_MESHES, PH_REFINE_MESH, PH_SPLIT, PH_MERGE, PH_SWAP,
    PH_CONTACT_RUN, PH_APPLY_INTERNAL, PH_UPDATE_POS, PH_MESH_WRITE, PH_WRITE_CELL_FILE, PH_WRITE_FACE_FILE,
    PH_STATS_WRITE, PH_SAVE_MESH, PH_RUN_ITERATION, PH_REBASE, PH_INIT_CELL_PROPS,
    PH_DIV_ADD_INTERSECTION, PH_DIV_DIVIDE_FACES, PH_DIV_TRIANGULATE_IF, PH_DIV_CREATE_DAUGHTERS,
    PH_POISSON_CLOUD, PH_TRIANGULATE_SURFACE, PH_BPA_SEED, PH_BPA_FILL_HOLES, PH_SPECIAL_POLARIZATION,
    PH_UPDATE_FACE_TYPES, PH_INIT_TRIANGULATE, PH_BPA_RUN, PH_POISSON_DISK,
    PH_COUNT
};
const char* phase_name(int ph);

struct Stats {
    uint64_t steps = 0;             // logical time: scheduling points passed
    uint64_t regions = 0;           // parallel regions executed
    uint64_t switches = 0;          // context switches (all causes)
    uint64_t preemptions = 0;       // switches at a point where the running member could have continued
    uint64_t blocked_crit = 0, blocked_lock = 0;
    uint64_t faults_fired = 0;
    uint64_t clock_calls = 0, clock_backwards = 0, rand_calls = 0;
    uint64_t lock_garbage = 0;      // omp_set_lock on a lock word that was never initialised
    uint64_t sched_hash = 1469598103934665603ull;   // FNV over (region, step, chosen) of every switch
    uint64_t phase_calls[PH_COUNT] = {0};
    uint64_t max_team = 0;
    bool deadlock = false;
    bool escaped_exception = false; // exception left a team member's region function
    std::string note;
};

// Start / end a simulated run. Between begin and end every source of nondeterminism is
// derived from cfg.seed. begin resets clock, rand(), counters and the switch trace.
void begin_run(const RunConfig& cfg);
Stats end_run();
Stats& stats();
bool in_run();

// switch trace of the current/last run: (region#, step, chosen member)
struct SwitchEv { uint32_t region; uint64_t step; int chosen; int cause; };
const std::vector<SwitchEv>& trace();

// faults
void clear_faults();
void add_fault(const ExcFault& f);
const std::vector<ExcFault>& faults();
void throw_fault_for_test(int exc_type);   // throws what a fired fault of that type throws (oracles ask the simulator for type and text)

// phase callbacks, invoked on the thread that enters/leaves the function.
// in_region = called by a team member of an active multi-member region.
using PhaseCb = std::function<void(int phase, bool enter, bool in_region)>;
void set_phase_cb(PhaseCb cb);
// region callbacks on the master, before the team starts / after it has joined. label =
// first phase entered inside (known at end only).
using RegionCb = std::function<void(bool start, int label_phase, int team)>;
void set_region_cb(RegionCb cb);

// suspend instrumentation effects (monitors call repo code themselves)
struct Quiet { Quiet(); ~Quiet(); };

// clock control
void clock_jump(int64_t delta_ticks);
int64_t clock_now_raw();

} // namespace sim
