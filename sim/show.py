import sys,json
n=0;bad=0;nt=0
for l in sys.stdin:
    if l.startswith('@@BEGIN'): continue
    if not l.startswith('@@RESULT'): print(l.rstrip()[:400]); continue
    r=json.loads(l[9:]); n+=1; nt+=r['nontrivial']
    if r['ok']: continue
    bad+=1; print(r['seed'], r['brief'][:220]);
    for v in r['violations'][:3]: print('   ',v)
    print('   probes',r['probes'], 'min_nops', r.get('min_nops'))
    if '-p' in sys.argv and 'min_plan' in r: print(r['min_plan'])
print('runs',n,'bad',bad,'nontrivial',nt)
