// Configuration override seam: force-included before every repo translation unit.
// Includes the real header (sets its include guard) then overrides the two indices.
#include "global_configuration.hpp"
#undef CONTACT_MODEL_INDEX
#define CONTACT_MODEL_INDEX 0
#undef DYNAMIC_MODEL_INDEX
#define DYNAMIC_MODEL_INDEX 0
#define SIM_CM 0
#define SIM_DM 0
