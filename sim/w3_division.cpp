// W3: cell division (C09 success-or-unchanged, C15(b) simultaneous divisions == sequential),
// with forced axes, symmetric and generic shapes, injected stage failures, jumping clock, team schedules.
#include "harness/tissue.hpp"
#include "cell_divider.hpp"

using namespace hz;

namespace {

// an epithelial cell whose readiness and division axis are dictated by the plan (virtual seam)
class plan_cell : public epithelial_cell {
public:
    bool ready = false; bool forced = false; vec3 axis;
    plan_cell(const std::vector<double>& p, const std::vector<unsigned>& f, unsigned id, cell_type_param_ptr t) : epithelial_cell(p, f, id, t) {}
    bool is_ready_to_divide() const noexcept override { return ready; }
    vec3 get_cell_division_axis() const noexcept override { return forced ? axis : epithelial_cell::get_cell_division_axis(); }
};

static uint64_t surface_hash(cell& c) {
    CellView v = view_of(c); std::vector<uint64_t> hs;
    for (size_t i = 0; i < v.tri.size(); i++) if (v.fused[i]) { uint64_t best = 0; for (int r = 0; r < 3; r++) { Fnv h; for (int k = 0; k < 3; k++) { const V3& p = v.pos[v.tri[i][(r + k) % 3]]; h.addd(p.x); h.addd(p.y); h.addd(p.z); } if (r == 0 || h.h < best) best = h.h; } hs.push_back(best); }
    std::sort(hs.begin(), hs.end()); Fnv h; for (auto x : hs) h.add(x); return h.h;
}
static uint64_t bit_hash(cell& c) {   // everything but the ids (the list position may legitimately change)
    Fnv h; auto& N = cell_tester::nodes(c); auto& F = cell_tester::faces(c); h.add(N.size()); h.add(F.size());
    for (auto& n : N) { h.add(n.is_used()); if (!n.is_used()) continue; h.addd(n.pos().dx()); h.addd(n.pos().dy()); h.addd(n.pos().dz());
#if DYNAMIC_MODEL_INDEX == 0
        h.addd(n.momentum().dx()); h.addd(n.momentum().dy()); h.addd(n.momentum().dz());
#endif
    }
    for (auto& f : F) { h.add(f.is_used()); if (!f.is_used()) continue; h.add(cell_tester::fn1(f)); h.add(cell_tester::fn2(f)); h.add(cell_tester::fn3(f)); h.add(f.get_local_face_type_id()); }
    h.addd(c.get_target_volume()); h.addd(c.get_growth_rate()); h.addd(c.get_division_volume());
    return h.h;
}

struct Built { std::vector<cell_ptr> cells; std::vector<int> is_mother; double lmin; std::shared_ptr<cell_type_parameters> type; };

static Built build(const Plan& pl) {
    Built B; int n = pl.geti("ncells", 1); const double R = 5e-6;
    B.type = make_cell_type(0, 3, 1e-5); B.type->avg_growth_rate_ = 2e-11; B.type->std_growth_rate_ = pl.get("growth_sigma", 0); B.type->avg_division_vol_ = 1e-15; B.type->std_division_vol_ = pl.get("div_sigma", 0);
    B.lmin = pl.get("lmin", 1e-6);
    for (int k = 0; k < n; k++) {
        std::string pre = "c" + std::to_string(k) + "_"; sim::Rng sr((uint64_t)pl.get(pre + "seed", k + 1) * 13 + pl.seed);
        TriMesh m = gen_shape(pl.geti(pre + "shape", 0), pl.geti(pre + "res", 1), sr);
        int align = pl.geti(pre + "align", 0);     // 0 random rotation, 1 keep generator axes (symmetric about coordinate planes)
        if (pl.geti(pre + "shape", 0) == SH_SPHERE && pl.get(pre + "elong", 1) != 1) { int ax = pl.geti(pre + "elong_axis", 0); double e = pl.get(pre + "elong", 1); m.apply(M33::scale(ax == 0 ? e : 1, ax == 1 ? e : 1, ax == 2 ? e : 1), V3()); }
        if (!align) m.apply(random_rotation(sr), V3());
        double jit = pl.get(pre + "jitter", 0); if (jit > 0) { double e = m.mean_edge(); for (auto& p : m.V) p += random_unit(sr) * (jit * e * sr.uni()); }
        m.scale(R * pl.get(pre + "rscale", 1)); m.translate(V3(pl.get(pre + "x", 3.0 * R * k * 1.3), pl.get(pre + "y", 0), pl.get(pre + "z", 0)));
        auto c = std::make_shared<plan_cell>(m.flat_pos(), m.flat_faces(), (unsigned)k, B.type);
        c->set_local_id(k); c->initialize_cell_properties();
        int mode = pl.geti(pre + "axis", 0);
        if (mode >= 1 && mode <= 6) { static const double ax[6][3] = {{1, 0, 0}, {-1, 0, 0}, {0, 1, 0}, {0, -1, 0}, {0, 0, 1}, {0, 0, -1}}; c->forced = true; c->axis = vec3(ax[mode - 1][0], ax[mode - 1][1], ax[mode - 1][2]); }
        else if (mode == 7) { V3 a = random_unit(sr); c->forced = true; c->axis = a.v(); }
        c->ready = pl.geti(pre + "mother", 1) != 0; B.is_mother.push_back(c->ready);
        c->set_target_volume(c->get_volume() * pl.get(pre + "tvf", 1.0));
#if DYNAMIC_MODEL_INDEX == 0
        for (auto& nd : cell_tester::nodes(*c)) if (nd.is_used()) nd.set_momentum((random_unit(sr) * 1e-22).v());
#endif
        B.cells.push_back(c);
    }
    return B;
}

// faults are armed after the tissue is built: the k-th call of the stage counted from now
static void arm_faults(const Plan& pl, RunResult& res) {
    sim::clear_faults();
    for (const Op& op : pl.ops) if (op.name == "fault") { int ph = (int)op.arg(0); sim::add_fault({ph, sim::stats().phase_calls[ph] + (uint64_t)op.arg(1), (int)op.arg(2)}); }
}

struct MotherInfo { unsigned id; V3 centroid; V3 axis; double volume, target; uint64_t surf; };

static void check_daughter(RunResult& res, cell& d, const MotherInfo& m, double lmin, int& side_out) {
    TopoOpts o; o.volume_before = 1e300; std::string e = check_topology(d, o);
    if (!e.empty()) { std::ostringstream s; s << "daughter of cell " << m.id << ": " << e; res.fail("C09", "daughter_" + e.substr(0, e.find(':')), s.str()); return; }
    if (!dynamic_cast<epithelial_cell*>(&d)) { res.fail("C09", "daughter_type", "daughter is not of the mother's cell class"); return; }
    CellView v = view_of(d); Geo g = geometry(v);
    double s = (g.centroid_area - m.centroid).dot(m.axis); side_out = s > 0 ? 1 : -1;
    double lmax = 3 * lmin, worst = 0;
    for (size_t i = 0; i < v.pos.size(); i++) if (v.nused[i]) { double q = (v.pos[i] - m.centroid).dot(m.axis) * side_out; worst = std::min(worst, q); }
    if (worst < -lmax) { std::ostringstream ss; ss << "a node of a daughter of cell " << m.id << " lies " << -worst << " on the wrong side of the division plane through the mother's centroid (l_max " << lmax << ")"; res.fail("C09", "daughter_side", ss.str()); }
}

RunResult run_w3(const Plan& pl) {
    RunResult res; sim::RunConfig cfg = config_from(pl); cfg.step_budget = 2000000000ull;
    int mode = pl.geti("mode", 0);      // 0: divide_cell on each mother directly; 1: cell_divider::run on the population (+ team differential)
    double vol_tol = pl.get("vol_tol", 0.05);
    auto snapshot_mothers = [&](Built& B) { std::vector<MotherInfo> M; for (auto& c : B.cells) { Geo g = geometry(view_of(*c)); V3 ax(c->get_cell_division_axis()); M.push_back({c->get_id(), V3(c->compute_centroid()), ax.unit(), g.volume, c->get_target_volume(), surface_hash(*c)}); } return M; };
    Fnv log;
    if (mode == 0) {
        sim::clear_faults(); sim::begin_run(cfg);
        try {
            Built B = build(pl); local_mesh_refiner lmr(B.lmin, 3 * B.lmin, pl.geti("swap", 0) != 0);
            std::vector<MotherInfo> M = snapshot_mothers(B); std::vector<uint64_t> bits; for (auto& c : B.cells) bits.push_back(bit_hash(*c));
            arm_faults(pl, res);
            for (size_t k = 0; k < B.cells.size(); k++) {
                if (!B.is_mother[k]) continue;
                auto r = cell_divider::divide_cell(B.cells[k], B.lmin, lmr);
                res.sim_iterations++;
                for (size_t j = 0; j < B.cells.size(); j++) if (j != k && bit_hash(*B.cells[j]) != bits[j]) { res.fail("C09", "bystander_changed", "dividing one cell changed another cell"); break; }
                if (!r.has_value()) {
                    res.probes.hit(sim::stats().faults_fired ? "division_failed_injected" : "division_failed_naturally");
                    if (surface_hash(*B.cells[k]) != M[k].surf) { std::ostringstream d; d << "division of cell " << M[k].id << " was abandoned but the mother's surface changed"; res.fail("C09", "failed_division_untouched", d.str()); }
                    TopoOpts o; o.volume_before = 1e300; std::string e = check_topology(*B.cells[k], o); if (!e.empty()) res.fail("C09", "failed_division_mother_valid", "mother after an abandoned division: " + e);
                    log.add(0);
                } else {
                    res.probes.hit("division_succeeded");
                    auto [d1, d2] = r.value(); int s1 = 0, s2 = 0; check_daughter(res, *d1, M[k], B.lmin, s1); check_daughter(res, *d2, M[k], B.lmin, s2);
                    if (res.viol.empty() && s1 == s2) res.fail("C09", "daughter_sides", "both daughters lie on the same side of the division plane");
                    double v1 = geometry(view_of(*d1)).volume, v2 = geometry(view_of(*d2)).volume;
                    res.probes.hit("vol_err_ppm_max", 0); { uint64_t ppm = (uint64_t)(1e6 * std::fabs(v1 + v2 - M[k].volume) / M[k].volume); auto& q = res.probes.c["vol_err_ppm_max"]; q = std::max<uint64_t>(q, ppm); }
                    if (getenv("W3_CALIB")) fprintf(stderr, "CALIB %g %g\n", B.lmin / (5e-6 * pl.get("c" + std::to_string(k) + "_rscale", 1)), std::fabs(v1 + v2 - M[k].volume) / M[k].volume);
                    { double reff = std::cbrt(3 * M[k].volume / (4 * M_PI)), rho = B.lmin / reff; vol_tol = 0.02 + 3.5 * rho * rho; }   // calibrated on the unchanged tree: max observed error ~2.2 rho^2 over 640 plans
                    if (std::fabs(v1 + v2 - M[k].volume) > vol_tol * M[k].volume) { std::ostringstream d; d << "daughter volumes " << v1 << " + " << v2 << " differ from the mother's " << M[k].volume << " by more than the remeshing tolerance " << vol_tol * 100 << "% (0.02 + 3.5 (l_min/R)^2)"; res.fail("C09", "volume_sum", d.str()); }
                    if (d1->get_target_volume() != M[k].target / 2 || d2->get_target_volume() != M[k].target / 2) res.fail("C09", "target_volume_half", "daughters do not each inherit half of the mother's target volume");
                    if (d1->get_cell_type().get() != B.type.get() || d2->get_cell_type().get() != B.type.get()) res.fail("C09", "daughter_cell_type", "daughters do not carry the mother's cell type");
                    log.add(surface_hash(*d1) ^ surface_hash(*d2));
                    // mother object itself must still be intact until the caller replaces it
                    if (surface_hash(*B.cells[k]) != M[k].surf) res.fail("C09", "mother_changed_on_success", "divide_cell modified the mother's surface (it must work on a copy)");
                }
            }
        } catch (std::exception& e) { res.fail("C09", "exception_escaped", std::string("an exception escaped from the division: ") + e.what()); }
        res.st = sim::end_run();
    } else {
        // population mode: reference on a team of one, then the plan's team/schedule
        std::vector<uint64_t> ref_pop; size_t ref_n = 0;
        for (int pass = 0; pass < 2; pass++) {
            sim::RunConfig c2 = cfg; if (pass == 0) { c2.team = 1; c2.strategy = sim::RTC; }
            sim::clear_faults(); sim::begin_run(c2);
            try {
                Built B = build(pl); local_mesh_refiner lmr(B.lmin, 3 * B.lmin, pl.geti("swap", 0) != 0);
                std::vector<MotherInfo> M = snapshot_mothers(B); std::vector<uint64_t> bits; for (auto& c : B.cells) bits.push_back(bit_hash(*c));
                arm_faults(pl, res);
                std::vector<cell_ptr> L = B.cells; unsigned max_id = (unsigned)L.size(); unsigned max_before = max_id;
                cell_divider::run(L, B.lmin, lmr, max_id, false);
                if (pass == 1) res.sim_iterations++;
                // bookkeeping
                std::set<unsigned> ids; size_t gone = 0; std::vector<uint64_t> pop;
                for (size_t i = 0; i < L.size(); i++) { if (L[i]->get_local_id() != i) { res.fail("C08", "local_id", "position index != list position after cell_divider::run"); break; } if (!ids.insert(L[i]->get_id()).second) { res.fail("C15", "division.duplicate_id", "two cells share an id after simultaneous divisions"); res.fail("C09", "daughter_ids_unique", "two cells share an id after the divisions of one iteration (daughters must get fresh unique ids)"); res.fail("C08", "id_unique", "two cells share an id after cell_divider::run"); break; } pop.push_back(surface_hash(*L[i])); }
                for (size_t k = 0; k < B.cells.size(); k++) { bool present = ids.count(M[k].id) && false; for (auto& c : L) if (c.get() == B.cells[k].get()) present = true; if (!present) { gone++; if (!B.is_mother[k]) res.fail("C09", "bystander_removed", "a cell that was not ready to divide left the population"); } else if (!B.is_mother[k] && bit_hash(*B.cells[k]) != bits[k]) res.fail("C09", "bystander_changed", "a cell that did not divide was modified by the division phase"); else if (B.is_mother[k] && surface_hash(*B.cells[k]) != M[k].surf) res.fail("C09", "failed_division_untouched", "a mother that stayed in the population has a changed surface"); }
                if (L.size() != B.cells.size() + gone) { std::ostringstream d; d << gone << " mothers left, population went from " << B.cells.size() << " to " << L.size(); res.fail(pass ? "C15" : "C09", "division.count", d.str()); }
                for (auto& c : L) if (c->get_id() >= max_before) { if (c->get_id() >= max_id) res.fail("C08", "id_counter", "a daughter id is not below the advanced id counter"); TopoOpts o; o.volume_before = 1e300; std::string e = check_topology(*c, o); if (!e.empty()) { res.fail("C09", "daughter_" + e.substr(0, e.find(':')), "daughter after cell_divider::run: " + e); break; } }
                if (max_id != max_before + 2 * gone) res.fail("C08", "id_counter_advance", "id counter did not advance by two per division");
                // a second division round in a later call: cells of the new population (daughters included) become ready; ids handed out
                // now must differ from every id handed out before ("dividing several cells ... one after another", "never reused")
                if (pl.geti("second_round", 0) && !L.empty() && !res.has("C09") && !res.has("C15")) {     // (a C08 complaint about the id counter does not stop the second round: its consequence shows there)
                    std::set<unsigned> before_ids; for (auto& c : L) before_ids.insert(c->get_id()); std::set<unsigned> ever = before_ids; for (auto& mi : M) ever.insert(mi.id);
                    sim::Rng rr(pl.seed * 131 + 17); int k2 = 1 + (int)rr.below(std::min<size_t>(3, L.size()));
                    for (int q = 0; q < k2; q++) { cell& c = *L[rr.below(L.size())]; cell_tester::division_volume(c) = 0.5 * c.get_volume(); if (auto* pc = dynamic_cast<plan_cell*>(&c)) pc->ready = true; }   // any position of the list: bystanders of the first round and daughters
                    unsigned max2 = max_id; size_t n2 = L.size();
                    cell_divider::run(L, B.lmin, lmr, max_id, false);
                    std::set<unsigned> ids2; for (size_t i = 0; i < L.size(); i++) { if (L[i]->get_local_id() != i) { res.fail("C08", "local_id", "position index != list position after the second cell_divider::run"); break; }
                        if (!ids2.insert(L[i]->get_id()).second) { res.fail("C15", "division.duplicate_id", "two cells share an id after a second round of divisions"); res.fail("C09", "daughter_ids_unique", "two cells share an id after a second round of divisions"); res.fail("C08", "id_unique", "two cells share an id after a second cell_divider::run"); break; }
                        if (!before_ids.count(L[i]->get_id()) && ever.count(L[i]->get_id())) { res.fail("C08", "id_reused", "a daughter of the second round received an id that was used before"); res.fail("C15", "division.duplicate_id", "an id of the first round was handed out again in the second round"); break; } }
                    if (L.size() != n2 || max_id != max2) res.probes.hit("second_round_divisions");
                }
                std::sort(pop.begin(), pop.end());
                if (pass == 0) { ref_pop = pop; ref_n = gone; if (gone) res.probes.hit("divisions_in_reference", gone); }
                else { res.probes.hit("team_division_runs"); if (gone > 1) res.probes.hit("simultaneous_divisions");
                    if (pop != ref_pop) { std::ostringstream d; d << "population after cell_divider::run on a team of " << pl.geti("team", 1) << " (" << sim::strategy_name(pl.geti("strategy", 0)) << ") differs from dividing the same cells on a team of one (" << gone << " vs " << ref_n << " divisions, " << pop.size() << " vs " << ref_pop.size() << " cells)"; res.fail("C15", "division.same_as_sequential", d.str()); }
                    Fnv h; for (auto x : pop) h.add(x); log.add(h.h); }
            } catch (std::exception& e) { res.fail("C09", "exception_escaped", std::string("an exception escaped from cell_divider::run: ") + e.what()); }
            sim::Stats st = sim::end_run(); if (pass == 1) res.st = st;
            if (st.escaped_exception) res.fail("C15", "region.escaped_exception", "an exception left the body of the division region");
            if (!res.viol.empty()) break;
        }
    }
    sim::clear_faults();
    res.faults_fired["exception_in_division_stage"] = res.st.faults_fired;
    res.fingerprint = log.h; res.nontrivial = res.sim_iterations > 0;
    return res;
}

Plan gen_w3(uint64_t seed, const std::string& tier, const std::string& focus) {
    Plan pl; pl.workload = "w3"; pl.seed = seed; sim::Rng r(seed * 49979687 + 11);
    bool thorough = tier == "thorough";
    int mode = (focus == "C15" || focus == "tsan") ? 1 : (r.coin(0.65) ? 0 : 1); pl.p["mode"] = mode;
    const double R = 5e-6; pl.p["lmin"] = R * r.uni(0.1, 0.3); pl.p["swap"] = r.coin(0.3);
    int n = mode == 0 ? r.range(1, 3) : r.range(2, thorough ? 10 : 7); pl.p["ncells"] = n;
    for (int k = 0; k < n; k++) {
        std::string pre = "c" + std::to_string(k) + "_";
        int shape = (int)r.below(SH_COUNT); pl.p[pre + "shape"] = shape; pl.p[pre + "res"] = r.coin(0.8) ? 1 : 2; pl.p[pre + "seed"] = (double)r.below(1000000);
        pl.p[pre + "align"] = r.coin(0.35); pl.p[pre + "jitter"] = r.coin(0.5) ? 0.05 : 0; pl.p[pre + "rscale"] = r.uni(0.8, 1.3);
        if (shape == SH_SPHERE && r.coin(0.6)) { pl.p[pre + "elong"] = r.uni(1.2, 2.2); pl.p[pre + "elong_axis"] = (int)r.below(3); }
        double u = r.uni(); pl.p[pre + "axis"] = u < 0.45 ? 0 : (u < 0.8 ? r.range(1, 6) : 7);
        pl.p[pre + "mother"] = (mode == 0) ? 1 : r.coin(0.6); pl.p[pre + "tvf"] = r.uni(0.8, 1.3);
        if (r.coin(0.7)) { pl.p[pre + "y"] = R * r.uni(-3, 3); pl.p[pre + "z"] = R * r.uni(-3, 3); if (r.coin(0.2)) { pl.p[pre + "y"] = pl.p[pre + "y"] * 30; pl.p[pre + "z"] = pl.p[pre + "z"] * 30; } }   // mothers anywhere in space, not only on the x axis (the division plane passes through the centroid, not through the origin)
    }
    if (mode == 1) { bool any = false; for (int k = 0; k < n; k++) any |= pl.geti("c" + std::to_string(k) + "_mother") != 0; if (!any) pl.p["c0_mother"] = 1; }
    if (r.coin(0.3)) { pl.p["growth_sigma"] = 4e-12; pl.p["div_sigma"] = 1e-16; }
    if (mode == 1 && r.coin(0.5)) pl.p["second_round"] = 1;
    pl.p["clock"] = (mode == 1) ? 0 : (int)r.below(3);
    draw_schedule(pl, r, 8); if (mode == 1 && pl.geti("team") < 2) pl.p["team"] = r.range(2, 8);
    if (focus == "tsan") { pl.p["mode"] = 1; pl.p["free_running"] = 1; pl.p["team"] = r.range(2, 8); pl.ops.clear(); }
    // injected stage failure (mode 0 only: with a fault the team run legitimately differs in which call index fails)
    if (mode == 0 && r.coin(0.4)) {
        static const int stages[] = {sim::PH_DIV_ADD_INTERSECTION, sim::PH_DIV_DIVIDE_FACES, sim::PH_DIV_TRIANGULATE_IF, sim::PH_DIV_CREATE_DAUGHTERS, sim::PH_POISSON_CLOUD, sim::PH_REFINE_MESH, sim::PH_REBASE, sim::PH_INIT_CELL_PROPS};
        static const int types[] = {sim::EX_DIVISION, sim::EX_MESH_INTEGRITY, sim::EX_RUNTIME, sim::EX_INIT_TRI, sim::EX_BPA};
        pl.ops.push_back({"fault", {(double)stages[r.below(8)], (double)r.range(1, 3), (double)types[r.below(5)]}});
    }
    return pl;
}

std::vector<Plan> shrink_w3(const Plan& p) {
    std::vector<Plan> out;
    if (p.geti("team", 1) > 2) { Plan q = p; q.p["team"] = 2; out.push_back(q); }
    if (p.geti("strategy", 0) != 0) { Plan q = p; q.p["strategy"] = 0; out.push_back(q); }
    int n = p.geti("ncells", 1); if (n > 1) { Plan q = p; q.p["ncells"] = n - 1; out.push_back(q); }
    if (p.geti("clock", 0) != 0) { Plan q = p; q.p["clock"] = 0; out.push_back(q); }
    return out;
}

Register reg_w3({"w3", gen_w3, run_w3, shrink_w3});
}
