// WC: contact phase monitors inside real solver iterations.
//  C06: forces/couplings after contact_model::run == the code's own narrow phase applied to ALL
//       node x face pairs of different cells (on deep copies, same order) -> isolates the broad phase
//  C07: with independent geometry (oracle G): zero net contact force, range, no same-cell contact,
//       restoring direction for penetrating nodes, existence of repulsion for clear penetrations
#include "harness/tissue.hpp"

using namespace hz;

namespace {

#if CONTACT_MODEL_INDEX == 0
typedef contact_node_face_via_spring model_t;
#elif CONTACT_MODEL_INDEX == 1
typedef contact_node_node_via_coupling model_t;
#else
typedef contact_face_face_via_coupling model_t;
#endif

struct NodeState { V3 x, f; bool used; int cc = -1, cn = -1; };

static cell_ptr deep_copy(const cell_ptr& c) {
    cell_ptr r;
    if (auto p = dynamic_cast<epithelial_cell*>(c.get())) r = std::make_shared<epithelial_cell>(*p);
    else if (auto p = dynamic_cast<ecm_cell*>(c.get())) r = std::make_shared<ecm_cell>(*p);
    else if (auto p = dynamic_cast<lumen_cell*>(c.get())) r = std::make_shared<lumen_cell>(*p);
    else if (auto p = dynamic_cast<nucleus_cell*>(c.get())) r = std::make_shared<nucleus_cell>(*p);
    else if (auto p = dynamic_cast<static_cell*>(c.get())) r = std::make_shared<static_cell>(*p);
    r->set_face_owner_cell();
    return r;
}

struct WC {
    const Plan& pl; RunResult& res;
    std::unique_ptr<sim_solver> S; Tissue T;
    std::vector<cell_ptr> copies, copies2; std::vector<std::vector<NodeState>> before; std::vector<CellView> views;
    uint64_t iters = 0, contact_phases = 0; Fnv log; bool team_one = true;
    WC(const Plan& p, RunResult& r) : pl(p), res(r) {}

    static std::vector<NodeState> state_of(cell& c) {
        std::vector<NodeState> v; for (auto& n : cell_tester::nodes(c)) { NodeState s; s.used = n.is_used(); s.x = V3(n.pos()); s.f = V3(n.force());
#if CONTACT_MODEL_INDEX == 1
            if (n.is_used() && n.is_coupled()) { auto q = n.get_coupled_node(); s.cc = (int)q.first; s.cn = (int)q.second; }
#endif
            v.push_back(s); } return v;
    }

    void at_entry() {
        auto& L = S->cells(); copies.clear(); copies2.clear(); before.clear(); views.clear();
        for (auto& c : L) { copies.push_back(deep_copy(c)); copies2.push_back(deep_copy(c)); before.push_back(state_of(*c)); views.push_back(view_of(*c)); }
    }

    // the code's own narrow phase on every node x face pair, in list order (cells, nodes, faces by global order)
    void brute_force() {
        model_t bf(T.params);
        std::vector<std::pair<size_t, face*>> faces;
        for (size_t i = 0; i < copies.size(); i++) for (auto& f : cell_tester::faces(*copies[i])) if (f.is_used()) faces.push_back({i, &f});
        std::reverse(faces.begin(), faces.end());   // the grid keeps each voxel's faces in a forward_list filled by push_front: newest (highest global id) first
#if CONTACT_MODEL_INDEX == 1
        for (auto& c : copies) for (auto& n : cell_tester::nodes(*c)) if (n.is_used()) { cell_tester::coupled(n) = std::nullopt; cell_tester::sqd(n) = std::numeric_limits<double>::max(); }
#elif CONTACT_MODEL_INDEX == 2
        for (auto& c : copies) for (auto& n : cell_tester::nodes(*c)) if (n.is_used()) cell_tester::coupled_map(n).clear();
#endif
        for (size_t i = 0; i < copies.size(); i++) {
            cell_ptr c1 = copies[i];
            for (auto& n : cell_tester::nodes(*c1)) {
                if (!n.is_used()) continue;
#if CONTACT_MODEL_INDEX == 0
                for (auto& pf : faces) if (copies[pf.first]->get_id() != c1->get_id()) bf.apply_contact_forces(c1, n, pf.second);
#else
                if (!(cell_tester::curvature(n) < c1->get_cell_type()->surface_coupling_max_curvature_)) continue;
                for (auto& pf : faces) { if (copies[pf.first]->get_id() == c1->get_id()) continue; V3 nn(cell_tester::nnormal(n)), fn(pf.second->get_normal()); if (nn.dot(fn) < std::cos(90 * M_PI / 180.0)) bf.resolve_contact(c1, copies[pf.first], n, pf.second); }
#endif
            }
        }
#if CONTACT_MODEL_INDEX == 1
        // a coupling is a pair: a node whose chosen partner has meanwhile coupled to a closer node is not coupled (fix aa146e0 made the code say so too)
        for (size_t i = 0; i < copies.size(); i++) for (auto& n1 : cell_tester::nodes(*copies[i])) if (n1.is_used() && n1.is_coupled()) { auto [c2, n2] = n1.get_coupled_node(); bool mutual = false; if (c2 < copies.size()) { auto& N2 = cell_tester::nodes(*copies[c2]); if (n2 < N2.size() && N2[n2].is_coupled()) { auto back = N2[n2].get_coupled_node(); mutual = back.first == copies[i]->get_local_id() && back.second == n1.get_local_id(); } } if (!mutual) { cell_tester::coupled(n1) = std::nullopt; cell_tester::sqd(n1) = std::numeric_limits<double>::max(); } }
        for (size_t i = 0; i < copies.size(); i++) for (auto& n1 : cell_tester::nodes(*copies[i])) if (n1.is_used() && n1.is_coupled()) { auto [c2, n2] = n1.get_coupled_node(); if (i > c2 && c2 < copies.size()) { auto& N2 = cell_tester::nodes(*copies[c2]); if (n2 < N2.size()) { vec3 ctr = (n1.pos() + N2[n2].pos()) * 0.5; cell_tester::pos(n1).reset(ctr); cell_tester::pos(N2[n2]).reset(ctr); } } }
#endif
    }

    bool direct_phase = false;     // the contact model was called directly on a mesh the refiner has not seen (faces may span several voxels of the grid)
    void at_exit() {
        auto& L = S->cells(); contact_phases++;
        if (L.size() != copies.size()) { res.fail("C06", "population_changed", "contact phase changed the population"); return; }
        const double cut_adh = T.params.contact_cutoff_adhesion_, cut_rep = T.params.contact_cutoff_repulsion_, cut = std::max(cut_adh, cut_rep);
        // ---- delta forces
        std::vector<std::vector<V3>> df(L.size()); double Fabs = 0; V3 Fsum;
        for (size_t i = 0; i < L.size(); i++) { auto& N = cell_tester::nodes(*L[i]); df[i].resize(N.size()); for (size_t k = 0; k < N.size(); k++) if (N[k].is_used() && k < before[i].size()) { df[i][k] = V3(N[k].force()) - before[i][k].f; Fabs += df[i][k].norm(); Fsum += df[i][k]; } }
        bool any_force = Fabs > 0;
        // ---- C07 (1) reciprocity
        if (Fsum.norm() > 1e-9 * Fabs + 1e-300) { std::ostringstream d; d << "contact phase added a net force " << Fsum.norm() << " to the tissue (sum of magnitudes " << Fabs << ")"; res.fail("C07", "net_force", d.str()); }
        // ---- C06: compare with the all-pairs application of the same rules
        bool do_bf = pl.geti("bruteforce", 1) && (contact_phases % std::max(1, pl.geti("bf_every", 1)) == 0);
        if (do_bf) {
            brute_force(); res.probes.hit("c06_bruteforce_phases");
            bool coupled_any = false;
#if CONTACT_MODEL_INDEX != 0
            for (auto& c : copies) for (auto& n : cell_tester::nodes(*c)) if (n.is_used() && n.is_coupled()) coupled_any = true;
#endif
            if (coupled_any) res.probes.hit("c06_phases_with_couplings");
            if (team_one || !coupled_any) {
                double Fb = 0; for (size_t i = 0; i < L.size(); i++) { auto& Nc = cell_tester::nodes(*copies[i]); for (size_t k = 0; k < Nc.size(); k++) if (Nc[k].is_used()) Fb += (V3(Nc[k].force()) - before[i][k].f).norm(); }
                double tol = 1e-9 * std::max(Fabs, Fb) + 1e-300;
                for (size_t i = 0; i < L.size() && res.viol.empty(); i++) {
                    auto& N = cell_tester::nodes(*L[i]); auto& Nc = cell_tester::nodes(*copies[i]);
                    for (size_t k = 0; k < N.size(); k++) if (N[k].is_used()) {
                        V3 fb = V3(Nc[k].force()) - before[i][k].f;
                        if ((df[i][k] - fb).norm() > tol) { std::ostringstream d; d << "node " << k << " of cell " << L[i]->get_id() << " (type " << L[i]->get_cell_type_id() << "): contact force " << df[i][k].norm() << " but applying the same rules to all node-triangle pairs gives " << fb.norm() << " (difference " << (df[i][k] - fb).norm() << ")"; res.fail("C06", "force_equals_all_pairs", d.str()); break; }
#if CONTACT_MODEL_INDEX == 1
                        bool c1 = N[k].is_coupled(), c2 = Nc[k].is_coupled();
                        if (c1 != c2 || (c1 && N[k].get_coupled_node() != Nc[k].get_coupled_node())) { std::ostringstream d; d << "node " << k << " of cell " << L[i]->get_id() << ": coupling after the contact phase differs from the all-pairs application of the same rules"; res.fail("C06", "coupling_equals_all_pairs", d.str()); break; }
                        if ((V3(N[k].pos()) - V3(Nc[k].pos())).norm() > 1e-12 * (1e-300 + V3(N[k].pos()).norm())) { res.fail("C06", "position_equals_all_pairs", "node position after coupling differs from the all-pairs application of the same rules"); break; }
#endif
                    }
                }
                if (Fabs > 0 || Fb > 0) res.probes.hit("c06_phases_with_forces");
            } else res.probes.hit("c06_exact_skipped_order_dependent");
        }
        // ---- C07 (2)(3) with independent geometry; skip on large tissues (O(nodes x faces))
        size_t total_nodes = 0; for (auto& v : views) total_nodes += v.pos.size();
        if (total_nodes > 1500) { res.probes.hit("c07_geometry_skipped_large"); return; }
        if (direct_phase) return;      // node normals / curvatures of a never-iterated tissue are not what the direction rules of C07 assume
        const double delta = 1e-9 * cut;
        for (size_t i = 0; i < L.size() && res.viol.empty(); i++) {
            auto& N = cell_tester::nodes(*L[i]);
            for (size_t k = 0; k < N.size(); k++) {
                if (!N[k].is_used() || k >= before[i].size() || !before[i][k].used) continue;
                const V3 x = before[i][k].x; double fmag = df[i][k].norm();
                // distance of this node to the other cells (positions at phase entry), and of other cells' nodes to faces around this node
                double dmin = 1e300; int jmin = -1; V3 qmin; int in_range_cells = 0;
                for (size_t j = 0; j < L.size(); j++) if (j != i) { V3 q; double d = dist_to_mesh(views[j], x, &q); if (d < cut + delta) in_range_cells++; if (d < dmin) { dmin = d; jmin = (int)j; qmin = q; } }
                bool reaction_range = false;
                if (dmin > cut - delta && fmag > 0) {   // maybe a reaction: some other cell's node is within cut of a face containing k
                    for (size_t t = 0; t < views[i].tri.size() && !reaction_range; t++) if (views[i].fused[t] && (views[i].tri[t][0] == k || views[i].tri[t][1] == k || views[i].tri[t][2] == k)) {
                        for (size_t j = 0; j < L.size() && !reaction_range; j++) if (j != i) for (size_t m = 0; m < views[j].pos.size(); m++) if (views[j].nused[m]) { V3 q = closest_on_triangle(views[j].pos[m], views[i].pos[views[i].tri[t][0]], views[i].pos[views[i].tri[t][1]], views[i].pos[views[i].tri[t][2]]); if ((q - views[j].pos[m]).norm() < cut + delta) { reaction_range = true; break; } }
                    }
                }
                if (fmag > 1e-12 * Fabs && dmin > cut + delta && !reaction_range) { std::ostringstream d; d << "node " << k << " of cell " << L[i]->get_id() << " received a contact force " << fmag << " although every element of another cell is farther than the cut-off (nearest " << dmin << ", cut-off " << cut << ")"; res.fail("C07", "range_force", d.str()); break; }
                if (jmin < 0) { if (fmag > 0) { res.fail("C07", "same_cell_force", "a single cell received a contact force from itself"); break; } continue; }
#if CONTACT_MODEL_INDEX == 1
                if (N[k].is_coupled()) {
                    auto [cc, cn] = N[k].get_coupled_node();
                    if (cc == i) { res.fail("C07", "same_cell_coupling", "node coupled to a node of its own cell"); break; }
                    if (cc < L.size() && cn < before[cc].size()) { double d = (before[cc][cn].x - x).norm(); if (d > cut_adh * (1 + 1e-9)) { std::ostringstream dd; dd << "node " << k << " of cell " << L[i]->get_id() << " was coupled to a node at distance " << d << " > adhesion cut-off " << cut_adh; res.fail("C07", "range_coupling", dd.str()); break; } res.probes.hit("c07_couplings_checked"); }
                }
#endif
                // restoring direction / existence: only when exactly one other cell is in range and the node is not coupled
                if (in_range_cells != 1) continue;
                bool coupled = false;
#if CONTACT_MODEL_INDEX != 0
                coupled = N[k].is_coupled();
#endif
                int ti = L[i]->get_cell_type_id(), tj = L[jmin]->get_cell_type_id();
                bool inside = point_inside(views[jmin], x);
                bool flipped = (ti == 0 && tj == 1) || (ti == 3 && tj == 0);     // ECM encloses epithelial cells; a cell encloses its nucleus
                bool forbidden = flipped ? !inside : inside;
                if (forbidden && dmin > 10 * delta && dmin < cut_rep - delta) {
                    // the code's own narrow phase on the single pair (node, closest face by oracle G), on fresh copies
                    int fidx = -1; dist_to_mesh(views[jmin], x, nullptr, &fidx); if (fidx < 0) continue;
                    auto& F2 = cell_tester::faces(*copies2[jmin]); auto& N1 = cell_tester::nodes(*copies2[i]); auto& N2 = cell_tester::nodes(*copies2[jmin]);
                    if ((size_t)fidx >= F2.size() || !F2[fidx].is_used()) continue;
                    unsigned fa = cell_tester::fn1(F2[fidx]), fb = cell_tester::fn2(F2[fidx]), fc = cell_tester::fn3(F2[fidx]);
                    for (node* q : {&N1[k], &N2[fa], &N2[fb], &N2[fc]}) { cell_tester::force(*q).reset();
#if CONTACT_MODEL_INDEX == 1
                        cell_tester::coupled(*q) = std::nullopt; cell_tester::sqd(*q) = std::numeric_limits<double>::max();
#elif CONTACT_MODEL_INDEX == 2
                        cell_tester::coupled_map(*q).clear();
#endif
                    }
                    model_t pairm(T.params);
#if CONTACT_MODEL_INDEX == 0
                    pairm.apply_contact_forces(copies2[i], N1[k], &F2[fidx]);
                    bool gate = true, became_coupled = false;
#else
                    bool gate = V3(cell_tester::nnormal(N1[k])).dot(V3(F2[fidx].get_normal())) < std::cos(90 * M_PI / 180.0) && cell_tester::curvature(N1[k]) < L[i]->get_cell_type()->surface_coupling_max_curvature_;
                    if (gate) pairm.resolve_contact(copies2[i], copies2[jmin], N1[k], &F2[fidx]);
                    bool became_coupled = N1[k].is_coupled();
#endif
                    V3 fn(N1[k].force()), ff = V3(N2[fa].force()) + V3(N2[fb].force()) + V3(N2[fc].force());
                    V3 back = qmin - x;
                    res.probes.hit("c07_pairs_checked");
                    if ((fn + ff).norm() > 1e-12 * (fn.norm() + ff.norm()) + 1e-300) { res.fail("C07", "pair_reciprocity", "force on the node is not minus the sum of the forces on the three nodes of the opposing triangle"); break; }
                    if (fn.norm() > 0) {
                        res.probes.hit("c07_restoring_checked");
                        if (!(fn.dot(back) > 0)) { std::ostringstream d; d << "node " << k << " of cell " << L[i]->get_id() << " (type " << ti << ") is on the forbidden side of cell " << L[jmin]->get_id() << " (type " << tj << ", depth " << dmin << ") but the contact force of this pair does not point back to that surface"; res.fail("C07", "restoring_direction", d.str()); break; }
                        if (!(ff.dot(back) < 0)) { res.fail("C07", "reaction_direction", "the reaction on the opposing triangle does not push the surface toward the penetrating node"); break; }
                    } else if (gate && !became_coupled) {
                        V3 fnrm(F2[fidx].get_normal()); double sgn = (x - qmin).dot(fnrm); bool side_ok = flipped ? (sgn > 0) : (sgn < 0);
                        bool strength = copies2[jmin]->get_face_type(fidx).repulsion_strength_ > 0 && F2[fidx].get_area() > 0;
                        if (side_ok && strength) { std::ostringstream d; d << "node " << k << " of cell " << L[i]->get_id() << " (type " << ti << ") penetrates cell " << L[jmin]->get_id() << " (type " << tj << ") by " << dmin << " (< repulsion cut-off " << cut_rep << ") but the contact rules apply no repulsive force to the pair"; res.fail("C07", "repulsion_missing", d.str()); break; }
                        res.probes.hit("c07_penetration_without_force_gated");
                    }
                }
            }
        }
        if (any_force) res.probes.hit("contact_phases_with_forces");
    }

    void on_phase(int ph, bool enter, bool in_region) {
        if (in_region || !S || ph != sim::PH_CONTACT_RUN) return;
        if (!res.viol.empty()) return;
        if (enter) at_entry(); else at_exit();
    }

    void execute() {
        T = build_tissue(pl);
        team_one = pl.geti("team", 1) == 1;
        S = std::make_unique<sim_solver>(T.params, T.cells, pl.geti("team", 1), true, false);
        sim::set_phase_cb([this](int ph, bool en, bool reg) { on_phase(ph, en, reg); });
        for (const Op& op : pl.ops) {
            if (!res.viol.empty()) break;
            if (op.name == "contact_only") {       // C06: the contact model alone, before any refinement pass
                direct_phase = true; try { S->contact().run(S->cells()); } catch (std::exception& e) { res.fail("C10", "contact.exception", e.what()); } direct_phase = false;
                res.probes.hit("direct_contact_phases"); iters++; continue; }
            if (op.name != "iter") continue;
            for (int i = 0; i < (int)op.arg(0, 1); i++) {
                if (S->cells().empty()) break;
                try { S->run_iteration(); } catch (mesh_integrity_exception&) { res.probes.hit("iteration_threw_mesh_integrity"); goto done; } catch (std::exception& e) { res.fail("C10", "iteration.exception", e.what()); goto done; }
                iters++; log.add(hash_population(S->cells()));
                if (!res.viol.empty()) break;
            }
        }
    done:
        sim::set_phase_cb(nullptr);
        S.reset();
    }
};

RunResult run_wc(const Plan& pl) {
    RunResult res; sim::RunConfig cfg = config_from(pl); cfg.step_budget = 3000000000ull;
    sim::clear_faults(); sim::begin_run(cfg);
    { WC w(pl, res); try { w.execute(); } catch (std::exception& e) { res.fail("C10", "harness.unexpected_exception", e.what()); } sim::set_phase_cb(nullptr); res.sim_iterations = w.iters; res.fingerprint = w.log.h; res.sim_time = w.iters * pl.get("dt", 1e-7); }
    res.st = sim::end_run();
    res.nontrivial = res.probes.c.count("contact_phases_with_forces") || res.probes.c.count("c07_couplings_checked");
    return res;
}

Plan gen_wc(uint64_t seed, const std::string& tier, const std::string& focus) {
    Plan pl; pl.workload = "wc"; pl.seed = seed; sim::Rng r(seed * 15485863 + 29);
    bool thorough = tier == "thorough";
    const double R = 5e-6; double lmin = R * r.uni(0.18, 0.3); pl.p["lmin"] = lmin;
    static const double cr[] = {0.1, 0.3, 0.5, 1.0, 2.0}; double cutoff = lmin * cr[r.below(5)]; pl.p["cut_adh"] = cutoff; pl.p["cut_rep"] = r.coin(0.5) ? cutoff : cutoff * r.uni(0.4, 2.5);
    pl.p["dt"] = 1e-7; pl.p["damping"] = 5e-10; pl.p["swap"] = r.coin(0.3);
    int layout = (int)r.below(4);           // 1 touching, 2 overlapping, 3 nested, 0 -> touching
    if (layout == 0) layout = 1;
    int n = (layout == 3) ? r.range(2, 3) : r.range(2, thorough ? 5 : 4);
    pl.p["ncells"] = n; pl.p["layout"] = layout;
    double gcut = std::max(pl.p["cut_adh"], pl.p["cut_rep"]);
    // placement
    std::vector<V3> ctr; std::vector<double> rad;
    for (int k = 0; k < n; k++) {
        double rk = R * r.uni(0.8, 1.2); V3 c;
        if (layout == 3) { if (k == 0) rk = R * r.uni(1.6, 2.0); else { rk = R * r.uni(0.45, 0.6); c = random_unit(r) * (rad[0] - rk + gcut * r.uni(-0.8, 0.8) - (k == 2 ? rk * 2.2 : 0)); if (k == 2) c = c * -1.0; } }
        else if (k > 0) { int j = (int)r.below(k); double gap = (layout == 1) ? gcut * r.uni(-0.5, 0.9) : -R * r.uni(0.03, 0.25); c = ctr[j] + random_unit(r) * (rad[j] + rk + gap); }
        ctr.push_back(c); rad.push_back(rk);
    }
    // placement of the whole tissue: at the origin, far from it, straddling it, voxel aligned
    V3 shift; int place = (int)r.below(4); pl.p["place"] = place;
    if (place == 1) shift = random_unit(r) * (R * std::pow(10.0, (focus == "C06" && r.coin(0.3)) ? r.range(4, 6) : r.range(1, 3)));   // C06: also metres away from the origin (coordinates that single precision would not resolve to the cut-off)
    else if (place == 2) shift = V3(-ctr[n - 1].x * 0.5, -ctr[n - 1].y * 0.5, -ctr[n - 1].z * 0.5);
    else if (place == 3) { double vox = 3 * lmin + 2 * gcut; shift = V3(vox * r.range(-3, 3), vox * r.range(-3, 3), vox * r.range(-3, 3)) - V3(rad[0], rad[0], rad[0]) - V3(2 * gcut, 2 * gcut, 2 * gcut); }
    for (int k = 0; k < n; k++) {
        std::string pre = "c" + std::to_string(k) + "_";
        int kind; if (layout == 3) kind = (k == 0) ? (r.coin(0.6) ? 1 : 0) : ((pl.geti("c0_kind", 0) == 0) ? 3 : 0);
        else { double u = r.uni(); kind = u < 0.45 ? 0 : (u < 0.6 ? 1 : (u < 0.75 ? 2 : (u < 0.87 ? 3 : 4))); }
        if (focus == "C06exact" && k > 0 && kind == 0) kind = 2;
        pl.p[pre + "kind"] = kind; pl.p[pre + "shape"] = (layout == 3) ? 0 : (int)r.below(3); pl.p[pre + "res"] = (layout == 3 && k == 0) ? 2 : (r.coin(0.7) ? 1 : 2);
        pl.p[pre + "r"] = rad[k]; pl.p[pre + "x"] = ctr[k].x + shift.x; pl.p[pre + "y"] = ctr[k].y + shift.y; pl.p[pre + "z"] = ctr[k].z + shift.z; pl.p[pre + "seed"] = (double)r.below(1000000);
    }
    pl.p["repulsion"] = r.coin(0.8) ? 1e9 : r.uni(1e8, 5e9); pl.p["adhesion"] = r.coin(0.7) ? 1e9 : 0;
    pl.p["clock"] = 0; pl.p["bf_every"] = 1;
    draw_schedule(pl, r, thorough ? 16 : 8);
    if (r.coin(0.5)) { pl.p["team"] = 1; pl.p["strategy"] = 0; }
    if (focus == "C06" && r.coin(0.25)) {     // the contact model alone on meshes whose triangles span several voxels of its grid (l_min far below the edge lengths; no refinement pass before)
        double lm = R * r.uni(0.03, 0.08), k = lm / lmin; pl.p["lmin"] = lm; pl.p["cut_adh"] = pl.p["cut_adh"] * k; pl.p["cut_rep"] = pl.p["cut_rep"] * k;
        pl.ops.push_back({"contact_only", {}}); return pl; }
    pl.ops.push_back({"iter", {(double)r.range(2, thorough ? 20 : 10)}});
    return pl;
}

std::vector<Plan> shrink_wc(const Plan& p) {
    std::vector<Plan> out;
    if (p.geti("team", 1) > 1) { Plan q = p; q.p["team"] = 1; q.p["strategy"] = 0; out.push_back(q); }
    for (size_t i = 0; i < p.ops.size(); i++) if (p.ops[i].name == "iter" && p.ops[i].arg(0) > 1) { Plan q = p; q.ops[i].a[0] = std::floor(p.ops[i].arg(0) / 2); out.push_back(q); Plan q2 = p; q2.ops[i].a[0] = p.ops[i].arg(0) - 1; out.push_back(q2); }
    int n = p.geti("ncells", 1); if (n > 2) { Plan q = p; q.p["ncells"] = n - 1; out.push_back(q); }
    return out;
}

Register reg_wc({"wc", gen_wc, run_wc, shrink_wc});
}
