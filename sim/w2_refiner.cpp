// W2: refinement histories (C01 topology invariants after every op, C11 neutrality /
// selectivity / fixpoint / termination). Ops: displacements, cache refresh, refine,
// single split/merge/swap on a chosen edge, rebase, parallel refine_meshes on a team.
#include "harness/plan.hpp"
#include "harness/oracles.hpp"

using namespace hz;

namespace {

struct EdgeInfo { std::set<std::pair<unsigned, unsigned>> und; };
static std::set<std::pair<unsigned, unsigned>> und_edges(const CellView& v) {
    std::set<std::pair<unsigned, unsigned>> s;
    for (size_t i = 0; i < v.tri.size(); i++) if (v.fused[i]) for (int k = 0; k < 3; k++) { unsigned a = v.tri[i][k], b = v.tri[i][(k + 1) % 3]; s.insert({std::min(a, b), std::max(a, b)}); }
    return s;
}
static bool has_edge(const CellView& v, unsigned x, unsigned y) {
    for (size_t i = 0; i < v.tri.size(); i++) if (v.fused[i]) { const auto& t = v.tri[i]; bool hx = t[0] == x || t[1] == x || t[2] == x, hy = t[0] == y || t[1] == y || t[2] == y; if (hx && hy) return true; }
    return false;
}
static size_t live_nodes(const CellView& v) { size_t n = 0; for (char c : v.nused) n += c; return n; }
static V3 total_mom(const CellView& v) { V3 s; for (size_t i = 0; i < v.pos.size(); i++) if (v.nused[i]) s += v.mom[i]; return s; }
static double abs_mom(const CellView& v) { double s = 0; for (size_t i = 0; i < v.pos.size(); i++) if (v.nused[i]) s += v.mom[i].norm(); return s; }
static bool close(const V3& a, const V3& b, double tol) { return (a - b).norm() <= tol; }

struct W2 {
    const Plan& pl; RunResult& res;
    std::vector<cell_ptr> cells; std::unique_ptr<local_mesh_refiner> lmr;
    double lmin = 0, lmax = 0; bool swap_on = true; int regime = 0; // 0 fresh, 1 stale
    cell* cur = nullptr;               // cell the harness is operating on (single-threaded ops)
    CellView before; bool have_before = false; int pass_depth = 0;
    uint64_t pass_splits = 0, pass_merges = 0, pass_swaps = 0; bool deep = false; long deep_budget = 1500;
    Fnv log;
    W2(const Plan& p, RunResult& r) : pl(p), res(r) {}

    // ---------------- op-level monitors (C11), called from the instrumentation hook
    void on_phase(int ph, bool enter, bool in_region) {
        if (in_region || !cur) return;
        if (ph == sim::PH_REFINE_MESH) { pass_depth += enter ? 1 : -1; return; }
        if (ph != sim::PH_SPLIT && ph != sim::PH_MERGE && ph != sim::PH_SWAP) return;
        if (enter) { before = view_of(*cur); have_before = true; return; }
        if (!have_before) return; have_before = false;
        if (std::uncaught_exceptions() > 0) return;     // op threw: judged by the topology check of the caller
        CellView after = view_of(*cur);
        if (ph == sim::PH_SPLIT) { pass_splits++; check_split(before, after); }
        else if (ph == sim::PH_MERGE) { pass_merges++; check_merge(before, after); }
        else { pass_swaps++; check_swap(before, after); }
        if (deep && pass_depth > 0 && res.viol.empty() && deep_budget > 0) { deep_budget--;   // C01 after every individual operation inside a pass
            TopoOpts o; o.t7_volume = false; std::string e = check_topology(*cur, o);
            if (!e.empty()) { std::ostringstream d; d << "inside a refinement pass, after " << sim::phase_name(ph) << " #" << (pass_splits + pass_merges + pass_swaps) << " on cell " << cur->get_id() << ": " << e; res.fail("C01", e.substr(0, e.find(':')), d.str()); }
        }
    }

    double postol(const CellView& v) const { double m = 0; for (size_t i = 0; i < v.pos.size(); i++) if (v.nused[i]) m = std::max(m, std::max({std::fabs(v.pos[i].x), std::fabs(v.pos[i].y), std::fabs(v.pos[i].z)})); return 4e-16 * m + 1e-300; }

    void check_split(const CellView& b, const CellView& a) {
        std::vector<unsigned> born, died;
        for (size_t i = 0; i < a.pos.size(); i++) { bool wb = i < b.pos.size() && b.nused[i]; if (a.nused[i] && !wb) born.push_back((unsigned)i); if (!a.nused[i] && wb) died.push_back((unsigned)i); }
        if (born.size() != 1 || !died.empty()) { std::ostringstream o; o << "split created " << born.size() << " nodes and removed " << died.size(); res.fail("C11", "split.nodes", o.str()); return; }
        unsigned e = born[0];
        // neighbours of e
        std::set<unsigned> nb; std::vector<size_t> efaces;
        for (size_t i = 0; i < a.tri.size(); i++) if (a.fused[i]) for (int k = 0; k < 3; k++) if (a.tri[i][k] == e) { efaces.push_back(i); nb.insert(a.tri[i][(k + 1) % 3]); nb.insert(a.tri[i][(k + 2) % 3]); }
        if (efaces.size() != 4 || nb.size() != 4) { res.fail("C11", "split.fan", "new node does not have exactly 4 faces / 4 neighbours"); return; }
        unsigned pa = 0, pb = 0; bool found = false; double tol = postol(b);
        for (unsigned x : nb) for (unsigned y : nb) if (x < y && x < b.pos.size() && y < b.pos.size() && has_edge(b, x, y) && !has_edge(a, x, y)) { V3 mid = (b.pos[y] + b.pos[x]) * 0.5; if (close(mid, a.pos[e], tol)) { pa = x; pb = y; found = true; } }
        if (!found) { res.fail("C11", "split.midpoint", "new node is not at the midpoint of the edge that was split"); return; }
        if (pass_depth > 0) { double l2 = (b.pos[pa] - b.pos[pb]).n2(); if (!(l2 > lmax * lmax * (1 - 1e-12))) { std::ostringstream o; o << "refinement pass split an edge of length " << std::sqrt(l2) << " <= l_max " << lmax; res.fail("C11", "split.selective", o.str()); } }
        for (size_t i = 0; i < b.pos.size(); i++) if (b.nused[i]) {
            if (!bits_equal(b.pos[i], a.pos[i])) { res.fail("C11", "split.moved_node", "split moved a surviving node"); return; }
            if (i != pa && i != pb && !bits_equal(b.mom[i], a.mom[i])) { res.fail("C11", "split.momentum_other", "split changed the momentum of an uninvolved node"); return; }
        }
        double pm = abs_mom(b) + 1e-300;
        if (!close(total_mom(a), total_mom(b), 1e-13 * pm)) { res.fail("C11", "split.momentum", "split does not conserve total momentum"); return; }
#if DYNAMIC_MODEL_INDEX == 0
        double mt = 1e-14 * (b.mom[pa].norm() + b.mom[pb].norm()) + 1e-300;
        if (!close(a.mom[pa], b.mom[pa] * (2. / 3.), mt) || !close(a.mom[pb], b.mom[pb] * (2. / 3.), mt) || !close(a.mom[e], (b.mom[pa] + b.mom[pb]) / 3.0, mt)) { res.fail("C11", "split.momentum_shares", "momentum shares after split are not (2/3, 2/3, (a+b)/3)"); return; }
#endif
        // labels: faces (pa,pb,c) and (pa,pb,d) before
        for (size_t i = 0; i < b.tri.size(); i++) if (b.fused[i]) {
            int hit = 0; unsigned opp = 0; for (int k = 0; k < 3; k++) { unsigned n = b.tri[i][k]; if (n == pa || n == pb) hit++; else opp = n; }
            if (hit != 2) continue;
            for (size_t j : efaces) { bool has_opp = false; for (int k = 0; k < 3; k++) if (a.tri[j][k] == opp) has_opp = true; if (has_opp && a.ftype[j] != b.ftype[i]) { res.fail("C11", "split.label", "a triangle created by a split does not carry the label of the triangle it subdivides"); return; } }
        }
        Geo gb = geometry(b), ga = geometry(a); double L = (gb.bmax - gb.bmin).norm();
        if (std::fabs(ga.volume - gb.volume) > 1e-10 * L * L * L) { res.fail("C11", "split.volume", "split changed the enclosed volume"); return; }
        if (std::fabs(ga.area - gb.area) > 1e-10 * L * L) { res.fail("C11", "split.area", "split changed the surface area"); return; }
        size_t fb = 0, fa = 0; for (char c : b.fused) fb += c; for (char c : a.fused) fa += c;
        if (fa != fb + 2) res.fail("C11", "split.faces", "split did not add exactly two triangles");
    }

    void check_merge(const CellView& b, const CellView& a) {
        std::vector<unsigned> born, died;
        for (size_t i = 0; i < a.pos.size(); i++) { bool wb = i < b.pos.size() && b.nused[i]; if (a.nused[i] && !wb) born.push_back((unsigned)i); if (!a.nused[i] && wb) died.push_back((unsigned)i); }
        if (born.size() != 1 || died.size() != 2) { std::ostringstream o; o << "merge created " << born.size() << " nodes and removed " << died.size(); res.fail("C11", "merge.nodes", o.str()); return; }
        unsigned pa = died[0], pb = died[1], ni = born[0];
        if (!has_edge(b, pa, pb)) { res.fail("C11", "merge.edge", "merged nodes were not joined by an edge"); return; }
        double tol = postol(b);
        if (!close(a.pos[ni], (b.pos[pb] + b.pos[pa]) * 0.5, tol)) { res.fail("C11", "merge.midpoint", "node created by a collapse is not at the midpoint of the collapsed edge"); return; }
        if (pass_depth > 0) { double l2 = (b.pos[pa] - b.pos[pb]).n2(); if (!(l2 < lmin * lmin * (1 + 1e-12))) { std::ostringstream o; o << "refinement pass collapsed an edge of length " << std::sqrt(l2) << " >= l_min " << lmin; res.fail("C11", "merge.selective", o.str()); } }
        for (size_t i = 0; i < b.pos.size(); i++) if (b.nused[i] && i != pa && i != pb) {
            if (!bits_equal(b.pos[i], a.pos[i])) { res.fail("C11", "merge.moved_node", "collapse moved a surviving node"); return; }
            if (!bits_equal(b.mom[i], a.mom[i])) { res.fail("C11", "merge.momentum_other", "collapse changed the momentum of an uninvolved node"); return; }
        }
#if DYNAMIC_MODEL_INDEX == 0
        double mt = 1e-14 * (b.mom[pa].norm() + b.mom[pb].norm()) + 1e-300;
        if (!close(a.mom[ni], b.mom[pa] + b.mom[pb], mt)) { res.fail("C11", "merge.momentum", "momentum of the collapsed node is not the sum of the two merged nodes"); return; }
#endif
        size_t fb = 0, fa = 0; for (char c : b.fused) fb += c; for (char c : a.fused) fa += c;
        if (fa + 2 != fb) res.fail("C11", "merge.faces", "collapse did not remove exactly two triangles");
    }

    void check_swap(const CellView& b, const CellView& a) {
        if (a.pos.size() != b.pos.size()) { res.fail("C11", "swap.nodes", "swap changed the node list"); return; }
        for (size_t i = 0; i < b.pos.size(); i++) { if (a.nused[i] != b.nused[i]) { res.fail("C11", "swap.nodes", "swap changed node liveness"); return; } if (b.nused[i] && (!bits_equal(b.pos[i], a.pos[i]) || !bits_equal(b.mom[i], a.mom[i]))) { res.fail("C11", "swap.moved_node", "swap touched a node"); return; } }
        size_t fb = 0, fa = 0; for (char c : b.fused) fb += c; for (char c : a.fused) fa += c;
        if (fa != fb) res.fail("C11", "swap.faces", "swap changed the number of triangles");
    }

    // ---------------- topology after every op (C01)
    void topo(cell& c, const char* opname, size_t opi, const CellView* prev) {
        TopoOpts o; o.t8_all_faces = (regime == 0);
        if (prev) { o.volume_before = std::max(0.0, geometry(*prev).volume); o.t7_min_resolved = 50 * lmin * lmin * lmin; }
        if (regime == 1 && prev) { CellView now = view_of(c); for (size_t i = 0; i < now.tri.size(); i++) if (now.fused[i]) { bool was = i < prev->tri.size() && prev->fused[i] && prev->tri[i] == now.tri[i]; if (!was) o.t8_faces.insert((unsigned)i); } }
        std::string e = check_topology(c, o);
        if (!e.empty()) { std::string cl = e.substr(0, e.find(':')); std::ostringstream d; d << "after op #" << opi << " (" << opname << ") on cell " << c.get_id() << ": " << e; res.fail("C01", cl, d.str()); }
    }

    double min_score(const CellView& v) const { double m = 1e300; for (size_t i = 0; i < v.tri.size(); i++) if (v.fused[i]) { V3 a = v.pos[v.tri[i][0]], b = v.pos[v.tri[i][1]], c = v.pos[v.tri[i][2]]; double per = (a - b).norm() + (b - c).norm() + (c - a).norm(); double ar = 0.5 * (b - a).cross(c - a).norm(); m = std::min(m, (36. / std::sqrt(3.)) * ar / (per * per)); } return m; }
    void edge_extremes(const CellView& v, double& mn, double& mx) const { mn = 1e300; mx = 0; for (auto& e : und_edges(v)) { double l = (v.pos[e.first] - v.pos[e.second]).norm(); mn = std::min(mn, l); mx = std::max(mx, l); } }

    // displacement helper: apply f to live nodes, reject (revert) if it inverts/degenerates the surface
    bool displace(cell& c, const std::function<V3(unsigned, const V3&)>& f) {
        auto& N = cell_tester::nodes(c); std::vector<V3> old(N.size());
        CellView v0 = view_of(c); Geo g0 = geometry(v0);
        for (size_t i = 0; i < N.size(); i++) { old[i] = V3(N[i].pos()); if (N[i].is_used()) { V3 p = f((unsigned)i, old[i]); cell_tester::pos(N[i]).reset(p.x, p.y, p.z); } }
        CellView v1 = view_of(c); Geo g1 = geometry(v1); bool ok = std::isfinite(g1.volume) && g1.volume > 0.05 * g0.volume;
        if (ok) { // no degenerate (zero-area) triangle and, in the stale regime, no face turned by more than 60 degrees
            auto& F = cell_tester::faces(c);
            for (size_t i = 0; i < F.size() && ok; i++) if (F[i].is_used()) { V3 w = (v1.pos[v1.tri[i][1]] - v1.pos[v1.tri[i][0]]).cross(v1.pos[v1.tri[i][2]] - v1.pos[v1.tri[i][0]]); double n = w.norm(); if (!(n > 0)) { ok = false; break; } if (regime == 1) { V3 cn(F[i].get_normal()); if (cn.n2() > 0 && cn.dot(w) / n < 0.5) ok = false; } }
        }
        if (!ok) { for (size_t i = 0; i < N.size(); i++) cell_tester::pos(N[i]).reset(old[i].x, old[i].y, old[i].z); res.probes.hit("displacement_rejected"); return false; }
        if (regime == 0) c.update_all_face_normals_and_areas();
        return true;
    }

    edge nth_edge(cell& c, uint64_t k) { auto& ES = cell_tester::edges(c); auto it = ES.begin(); std::advance(it, k % ES.size()); return *it; }

    void run() {
        sim::Rng rng(pl.seed ^ 0x77aa);
        int ncells = pl.geti("ncells", 1); int shape = pl.geti("shape", 0), resn = pl.geti("res", 1);
        double scale = pl.get("scale", 1.0); swap_on = pl.geti("swap", 1) != 0; regime = pl.geti("regime", 0);
        deep = pl.geti("deep", 0) != 0;
        auto type = make_cell_type(0, 3, scale);
        double mean_edge = 0;
        for (int k = 0; k < ncells; k++) {
            sim::Rng sr(pl.seed * 31 + k);
            TriMesh m = gen_shape(shape, resn, sr); m.apply(random_rotation(sr), V3()); m.scale(scale);
            m.translate(V3(pl.get("off_x", 0) + 3.0 * scale * k, pl.get("off_y", 0), pl.get("off_z", 0)));
            if (k == 0) mean_edge = m.mean_edge();
            cell_ptr c = make_cell(0, m, (unsigned)k, type); c->set_local_id(k);
            try { c->initialize_cell_properties(true); } catch (std::exception& e) { res.probes.hit("init_failed"); return; }
            auto& N = cell_tester::nodes(*c); auto& F = cell_tester::faces(*c);
#if DYNAMIC_MODEL_INDEX == 0
            for (auto& n : N) if (n.is_used()) { V3 p = random_unit(sr) * sr.uni(0, 1e-3); n.set_momentum(p.v()); }
#endif
            for (auto& f : F) if (f.is_used()) f.set_face_type_id((unsigned short)sr.below(3));
            cells.push_back(c);
        }
        lmin = pl.get("lmin_ratio", 0.6) * mean_edge; lmax = lmin * pl.get("lmax_ratio", 3.0);
        lmr = std::make_unique<local_mesh_refiner>(lmin, lmax, swap_on);
        sim::set_phase_cb([this](int ph, bool en, bool reg) { on_phase(ph, en, reg); });
        for (auto& c : cells) topo(*c, "init", 0, nullptr);
        size_t opi = 0;
        for (const Op& op : pl.ops) {
            opi++; if (!res.viol.empty()) break;
            cell_ptr c = cells[(size_t)op.arg(0) % cells.size()]; cur = c.get();
            CellView prev = view_of(*c);
            const std::string& n = op.name;
            if (n == "refine" || n == "refine_all" || n == "stretch" || n == "split") {
                // keep meshes small: skip ops that would let a pass grow the mesh beyond ~4000 triangles
                double est = 0; for (auto& cc : (n == "refine_all" ? cells : std::vector<cell_ptr>{c})) { Geo g = geometry(view_of(*cc)); est = std::max(est, g.area / (0.21 * lmax * lmax)); }
                if (live_nodes(prev) > 700 || est > 1200) { res.probes.hit("size_cap_skip"); continue; }
            }
            if (n == "stretch") { V3 ax = V3(op.arg(1), op.arg(2), op.arg(3)).unit(); double f = op.arg(4, 1); Geo g = geometry(prev); V3 ctr = g.centroid_area; displace(*c, [&](unsigned, const V3& p) { V3 d = p - ctr; return p + ax * (d.dot(ax) * (f - 1)); }); }
            else if (n == "twist") { V3 ax = V3(op.arg(1), op.arg(2), op.arg(3)).unit(); double rate = op.arg(4); Geo g = geometry(prev); V3 ctr = g.centroid_area; displace(*c, [&](unsigned, const V3& p) { V3 d = p - ctr; double h = d.dot(ax); return ctr + M33::rotation(ax, rate * h / scale) * d; }); }
            else if (n == "bump") { auto& N = cell_tester::nodes(*c); unsigned i0 = (unsigned)op.arg(1) % N.size(); if (N[i0].is_used()) { Geo g = geometry(prev); V3 p0(N[i0].pos()); V3 dir = (p0 - g.centroid_area).unit(); double amp = op.arg(2) * lmin, rad = op.arg(3) * lmin; displace(*c, [&](unsigned, const V3& p) { return p + dir * (amp * std::exp(-(p - p0).n2() / (rad * rad))); }); } }
            else if (n == "noise") { sim::Rng nr((uint64_t)op.arg(2)); double amp = op.arg(1) * lmin; displace(*c, [&](unsigned, const V3& p) { return p + random_unit(nr) * nr.uni(0, amp); }); }
            else if (n == "pull") { // move a node to within frac*l_min of one of its neighbours
                auto& ES = cell_tester::edges(*c); if (!ES.empty()) { edge e = nth_edge(*c, (uint64_t)op.arg(1)); unsigned i = e.n1(), j = e.n2(); V3 pj = prev.pos[j], pi = prev.pos[i]; V3 np = pj + (pi - pj).unit() * (op.arg(2) * lmin); displace(*c, [&](unsigned k, const V3& p) { return k == i ? np : p; }); } }
            else if (n == "refresh") { c->update_all_face_normals_and_areas(); }
            else if (n == "rebase") {
                std::multiset<std::array<double, 9>> tb, ta; auto tris = [](cell& cc, std::multiset<std::array<double, 9>>& s) { CellView v = view_of(cc); for (size_t i = 0; i < v.tri.size(); i++) if (v.fused[i]) { std::array<double, 9> t; for (int k = 0; k < 3; k++) { t[3 * k] = v.pos[v.tri[i][k]].x; t[3 * k + 1] = v.pos[v.tri[i][k]].y; t[3 * k + 2] = v.pos[v.tri[i][k]].z; } s.insert(t); } };
                tris(*c, tb);
                try { c->rebase(); } catch (std::exception& e) { res.fail("C01", "rebase.throw", std::string("rebase threw on a valid mesh: ") + e.what()); }
                tris(*c, ta);
                if (tb != ta) res.fail("C01", "rebase.geometry", "compaction changed the set of triangles (by coordinates, in order)");
                if (!cell_tester::free_nodes(*c).empty() || !cell_tester::free_faces(*c).empty()) res.fail("C01", "rebase.slots", "free slots remain after compaction");
                res.probes.hit("rebase");
            }
            else if (n == "split" || n == "merge" || n == "swap") {
                edge e = nth_edge(*c, (uint64_t)op.arg(1)); edge_set dummy = cell_tester::edges(*c);
                try {
                    if (n == "split") { lmr->split_edge(e, c, dummy); res.probes.hit("op_split"); }
                    else if (n == "swap") { lmr->swap_edge(e, c); res.probes.hit("op_swap"); }
                    else if (lmr->can_be_merged(e, c)) { lmr->merge_edge(e, c, dummy); res.probes.hit("op_merge"); } else res.probes.hit("merge_not_allowed");
                } catch (mesh_integrity_exception& ex) { res.probes.hit("op_threw_mesh_integrity"); }
                catch (std::exception& ex) { res.fail("C01", "op.throw", std::string(n) + " threw: " + ex.what()); }
            }
            else if (n == "refine") {
                CellView b = view_of(*c); Fnv hb; hash_cell(hb, *c); for (const edge& e : cell_tester::edges(*c)) { hb.add(e.n1()); hb.add(e.n2()); hb.add(e.f1()); hb.add(e.f2()); } for (unsigned q : cell_tester::free_nodes(*c)) hb.add(q); for (unsigned q : cell_tester::free_faces(*c)) hb.add(q);
                double emin, emax; edge_extremes(b, emin, emax); double ms = min_score(b); size_t Eb = und_edges(b).size();
                std::set<unsigned short> labels_b; std::map<unsigned short, double> area_b; for (size_t i = 0; i < b.tri.size(); i++) if (b.fused[i]) { labels_b.insert(b.ftype[i]); area_b[b.ftype[i]] += 0.5 * (b.pos[b.tri[i][1]] - b.pos[b.tri[i][0]]).cross(b.pos[b.tri[i][2]] - b.pos[b.tri[i][0]]).norm(); }
                pass_splits = pass_merges = pass_swaps = 0; bool threw = false;
                uint64_t steps0 = sim::stats().steps;
                try { lmr->refine_mesh(c); } catch (mesh_integrity_exception&) { threw = true; res.probes.hit("refine_threw_mesh_integrity"); }
                catch (std::exception& ex) { threw = true; res.fail("C11", "refine.exception_type", std::string("refine_mesh threw an undocumented exception: ") + ex.what()); }
                res.sim_iterations++;
                res.probes.hit("pass_splits", pass_splits); res.probes.hit("pass_merges", pass_merges); res.probes.hit("pass_swaps", pass_swaps);
                if (pass_splits + pass_merges > 50 * Eb + 1000) res.fail("C11", "termination", "refinement pass used more than 50*E+1000 split/collapse operations");
                CellView a = view_of(*c);
                if (!threw) {
                    double pm = abs_mom(b) + 1e-300;
                    if (!close(total_mom(a), total_mom(b), 1e-12 * pm * (1 + pass_splits + pass_merges))) res.fail("C11", "pass.momentum", "refinement pass does not conserve total momentum");
                    if (pass_swaps == 0) for (size_t i = 0; i < a.tri.size(); i++) if (a.fused[i] && !labels_b.count(a.ftype[i])) { res.fail("C11", "pass.labels", "refinement pass introduced a face label that did not exist before"); break; }
                    bool in_band = emin > lmin * (1 + 1e-9) && emax < lmax * (1 - 1e-9);
                    bool quality_ok = !swap_on || (regime == 0 && ms > 0.2 * (1 + 1e-9));
                    if (in_band && quality_ok && (regime == 0 || !swap_on)) {
                        Fnv ha; hash_cell(ha, *c); for (const edge& e : cell_tester::edges(*c)) { ha.add(e.n1()); ha.add(e.n2()); ha.add(e.f1()); ha.add(e.f2()); } for (unsigned q : cell_tester::free_nodes(*c)) ha.add(q); for (unsigned q : cell_tester::free_faces(*c)) ha.add(q);
                        res.probes.hit("fixpoint_checked");
                        if (ha.h != hb.h) res.fail("C11", "fixpoint", "a mesh inside the length band and quality rule was modified by a refinement pass");
                    }
                    if (pass_merges == 0 && pass_swaps == 0) {
                        bool okn = true; for (size_t i = 0; i < b.pos.size(); i++) if (b.nused[i] && (!a.nused[i] || !bits_equal(a.pos[i], b.pos[i]))) okn = false;
                        if (!okn) res.fail("C11", "pass.moved_node", "a pass without collapses or swaps moved or removed a pre-existing node");
                        Geo gb = geometry(b), ga = geometry(a); double L = (gb.bmax - gb.bmin).norm();
                        if (std::fabs(ga.volume - gb.volume) > 1e-9 * L * L * L || std::fabs(ga.area - gb.area) > 1e-9 * L * L) res.fail("C11", "pass.volume_area", "a pass of pure splits changed volume or area");
                        std::map<unsigned short, double> area_a; for (size_t i = 0; i < a.tri.size(); i++) if (a.fused[i]) area_a[a.ftype[i]] += 0.5 * (a.pos[a.tri[i][1]] - a.pos[a.tri[i][0]]).cross(a.pos[a.tri[i][2]] - a.pos[a.tri[i][0]]).norm();
                        for (auto& kv : area_b) if (std::fabs(area_a[kv.first] - kv.second) > 1e-9 * L * L) { res.fail("C11", "pass.label_area", "a pass of pure splits changed the area carried by a face label"); break; }
                    }
                    if (pass_splits && pass_merges) res.probes.hit("pass_with_split_and_merge");
                }
                (void)steps0;
            }
            else if (n == "refine_all") {
                // sequential reference on deep copies, then the real parallel refine_meshes on a team
                std::vector<cell_ptr> copies; std::vector<int> ref_threw; std::vector<CellView> prevs; for (auto& cc : cells) prevs.push_back(view_of(*cc));
                for (auto& cc : cells) { auto cp = std::make_shared<epithelial_cell>(*static_cast<epithelial_cell*>(cc.get())); cp->set_face_owner_cell(); copies.push_back(cp); }
                cur = nullptr;
                for (auto& cp : copies) { int t = 0; try { lmr->refine_mesh(cp); } catch (std::exception&) { t = 1; } ref_threw.push_back(t); }
                bool threw = false; try { lmr->refine_meshes(cells); } catch (std::exception&) { threw = true; }
                res.sim_iterations++; res.probes.hit("refine_all");
                for (size_t k = 0; k < cells.size(); k++) { if (ref_threw[k]) continue; Fnv h1, h2; hash_cell(h1, *cells[k]); hash_cell(h2, *copies[k]); if (h1.h != h2.h) { std::ostringstream d; d << "cell " << k << " refined on a team of " << pl.geti("team", 1) << " differs from its sequential refinement"; res.fail("C01", "team.equals_sequential", d.str()); } }
                bool any_ref = false; for (int t : ref_threw) any_ref |= (t != 0);
                if (any_ref != threw) res.fail("C15", "refine_meshes.exception", "refine_meshes on a team did not report a failing cell's exception like the sequential pass");
                { int rg = regime; if (rg == 1) regime = 2; for (size_t k = 0; k < cells.size(); k++) { cur = cells[k].get(); topo(*cells[k], n.c_str(), opi, &prevs[k]); } regime = rg; }
                continue;
            }
            if (n == "rebase") { int rg = regime; if (rg == 1) { regime = 2; } topo(*c, n.c_str(), opi, &prev); regime = rg; }   // compaction renumbers slots: no face is new
            else topo(*c, n.c_str(), opi, &prev);
            Fnv h; hash_cell(h, *c); log.add(h.h);
        }
        sim::set_phase_cb(nullptr);
        for (auto& c : cells) { Fnv h; hash_cell(h, *c); log.add(h.h); }
        res.fingerprint = log.h;
        uint64_t structural = res.probes.c["pass_splits"] + res.probes.c["pass_merges"] + res.probes.c["pass_swaps"] + res.probes.c["op_split"] + res.probes.c["op_merge"] + res.probes.c["op_swap"];
        res.nontrivial = structural > 0;
    }
};

RunResult run_w2(const Plan& pl) {
    RunResult res; sim::RunConfig cfg = config_from(pl); cfg.step_budget = 400000000ull;
    sim::clear_faults(); sim::begin_run(cfg);
    { W2 w(pl, res); try { w.run(); } catch (std::exception& e) { res.fail("C10", "harness.unexpected_exception", e.what()); } sim::set_phase_cb(nullptr); }
    res.st = sim::end_run();
    if (res.st.escaped_exception) res.fail("C15", "region.escaped_exception", "an exception left the body of a parallel region (std::terminate under libgomp)");
    return res;
}

Plan gen_w2(uint64_t seed, const std::string& tier, const std::string& focus) {
    Plan pl; pl.workload = "w2"; pl.seed = seed; sim::Rng r(seed * 7919 + 13);
    bool thorough = tier == "thorough";
    pl.p["shape"] = (int)r.below(SH_COUNT); pl.p["res"] = r.coin(thorough ? 0.15 : 0.05) ? 3 : r.range(1, 2);
    { double u = r.uni(); pl.p["scale"] = u < 0.4 ? 1.0 : (u < 0.8 ? 1e-5 * r.uni(0.5, 2) : 1e-6 * r.uni(0.5, 2)); }   // unit scale, tissue scale (metres), small cells
    static const double ratios[] = {0.4, 0.5, 0.6, 0.8, 1.0, 1.2}; pl.p["lmin_ratio"] = ratios[r.below(6)];
    pl.p["lmax_ratio"] = r.coin(0.7) ? 3.0 : r.uni(2.1, 4.0);
    pl.p["swap"] = r.coin(0.65); pl.p["regime"] = r.coin(0.35); pl.p["deep"] = (pl.geti("res") == 1 && r.coin(0.5)) || r.coin(0.1);
    bool multi = r.coin(0.2); pl.p["ncells"] = multi ? r.range(2, 5) : 1;
    if (r.coin(0.3)) { double far = pl.p["scale"] * std::pow(10.0, r.range(1, 3)); pl.p["off_x"] = r.uni(-far, far); pl.p["off_y"] = r.uni(-far, far); pl.p["off_z"] = r.uni(-far, far); }
    draw_schedule(pl, r, 8);
    int nops = r.range(5, thorough ? 40 : 24); int nc = pl.geti("ncells");
    for (int i = 0; i < nops; i++) {
        Op op; double ci = (double)r.below(nc); double u = r.uni();
        if (u < 0.14) { V3 a = random_unit(r); static const double fs[] = {0.3, 0.5, 0.7, 1.5, 2.0, 3.0}; op = {"stretch", {ci, a.x, a.y, a.z, fs[r.below(6)]}}; }
        else if (u < 0.19) { V3 a = random_unit(r); op = {"twist", {ci, a.x, a.y, a.z, r.uni(-1.0, 1.0)}}; }
        else if (u < 0.27) op = {"bump", {ci, (double)r.below(100000), r.uni(-3, 3), r.uni(1, 4)}};
        else if (u < 0.35) op = {"noise", {ci, r.uni(0.02, 0.3), (double)r.below(1u << 30)}};
        else if (u < 0.43) op = {"pull", {ci, (double)r.below(100000), r.uni(0.01, 0.5)}};
        else if (u < 0.47) op = {"refresh", {ci}};
        else if (u < 0.53) op = {"rebase", {ci}};
        else if (u < 0.61) op = {"split", {ci, (double)r.below(100000)}};
        else if (u < 0.69) op = {"merge", {ci, (double)r.below(100000)}};
        else if (u < 0.75) op = {"swap", {ci, (double)r.below(100000)}};
        else if (multi && u < 0.83) op = {"refine_all", {0}};
        else op = {"refine", {ci}};
        pl.ops.push_back(op);
    }
    pl.ops.push_back({"refine", {0}});
    return pl;
}

std::vector<Plan> shrink_w2(const Plan& p) {
    std::vector<Plan> out;
    if (p.geti("team", 1) > 1) { Plan q = p; q.p["team"] = 1; q.p["strategy"] = 0; out.push_back(q); Plan q2 = p; q2.p["team"] = 2; out.push_back(q2); }
    if (p.geti("strategy", 0) != 0) { Plan q = p; q.p["strategy"] = 0; out.push_back(q); }
    if (p.geti("ncells", 1) > 1) { Plan q = p; q.p["ncells"] = p.geti("ncells") - 1; out.push_back(q); }
    if (p.geti("res", 1) > 1) { Plan q = p; q.p["res"] = p.geti("res") - 1; out.push_back(q); }
    if (p.get("off_x", 0) != 0 || p.get("off_y", 0) != 0) { Plan q = p; q.p.erase("off_x"); q.p.erase("off_y"); q.p.erase("off_z"); out.push_back(q); }
    return out;
}

Register reg_w2({"w2", gen_w2, run_w2, shrink_w2});
}
