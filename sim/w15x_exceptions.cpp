// W15X: C15, third clause - "an exception thrown in one thread of a parallel phase reaches the caller as that
// exception after all threads have finished". A population of separated cells is handed to one of the three
// parallel phases that promise this (local_mesh_refiner::refine_meshes, mesh_writer::write with its parallel
// rebase loop and its two writer sections, the whole solver::run_iteration that contains both, and the parallel
// construction of the cells in simulation_initializer) on a team of
// 1-16 under a drawn schedule, with 1-3 exceptions of drawn types injected at the entry of the k-th call of a phase
// function, i.e. in whichever member the schedule gives that call to (first, middle, last cell; several at once).
//   - the caller must receive an exception iff a fault fired, and its dynamic type and text must be those of one of
//     the fired faults (not a copy sliced to a base type, not another type, not swallowed);
//   - when it arrives the region is over: every member has joined (no member left inside; the runtime would flag an
//     exception that left a member's body, and a lost wake-up is a deadlock), and every cell that did not receive a
//     fault has been processed exactly as a sequential pass would have processed it;
//   - the two writer sections are independent: a fault in one leaves the other file complete and parseable.
#include "harness/tissue.hpp"
#include "harness/iofmt.hpp"
#include "mesh_writer.hpp"
#include "simulation_initializer.hpp"
#include "custom_exception.hpp"
#include <typeinfo>
#include <unistd.h>

using namespace hz;

namespace {

struct Caught { bool any = false; std::string type, what; };
template <class F> Caught guarded(F f) {
    Caught c;
    try { f(); }
    catch (std::exception& e) { c.any = true; c.type = typeid(e).name(); c.what = e.what(); }
    catch (...) { c.any = true; c.type = "(not a std::exception)"; }
    return c;
}

static const char* type_name_of(int t) {
    switch (t) {
        case sim::EX_DIVISION: return typeid(division_exception).name();
        case sim::EX_BPA: return typeid(bpa_exception).name();
        case sim::EX_MESH_INTEGRITY: return typeid(mesh_integrity_exception).name();
        case sim::EX_MESH_WRITER: return typeid(mesh_writer_exception).name();
        case sim::EX_INIT_TRI: return typeid(initial_triangulation_exception).name();
        default: return typeid(std::runtime_error).name();
    }
}

// what the simulator throws for type t (asked from the simulator itself, so that the two cannot drift apart)
static std::string what_of(int t) {
    static std::map<int, std::string> cache; auto it = cache.find(t); if (it != cache.end()) return it->second;
    std::string w; sim::Quiet quiet;   // (not part of the run: the probing must not advance the logical step counter of whichever plan asks first in a process)
    try { sim::throw_fault_for_test(t); } catch (std::exception& e) { w = e.what(); } cache[t] = w; return w;
}

static void arm(const Plan& pl) {
    sim::clear_faults();
    for (const Op& op : pl.ops) if (op.name == "fault") { int ph = (int)op.arg(0); sim::add_fault({ph, sim::stats().phase_calls[ph] + (uint64_t)op.arg(1), (int)op.arg(2)}); }
}

// the verdict on what the caller received
static void judge(RunResult& res, const Caught& got, const char* phase_label) {
    std::vector<sim::ExcFault> fired; for (auto& f : sim::faults()) if (f.fired) fired.push_back(f);
    res.faults_fired["exception_in_parallel_phase"] += fired.size();
    if (fired.empty()) {
        if (got.any) { if (got.what.find("simulated fault") != std::string::npos) res.fail("C15", "exception.spurious", std::string(phase_label) + ": the caller received a simulated fault although none fired"); else res.probes.hit("natural_exception"); }
        else res.probes.hit("no_fault_fired");
        return;
    }
    res.probes.hit(fired.size() > 1 ? "several_faults_fired" : "one_fault_fired");
    if (!got.any) { std::ostringstream d; d << phase_label << ": " << fired.size() << " exception(s) were thrown inside the parallel phase (first: " << what_of(fired[0].exc_type) << ") but the caller received none"; res.fail("C15", "exception.lost", d.str()); return; }
    bool match = false; for (auto& f : fired) if (got.type == type_name_of(f.exc_type) && got.what == what_of(f.exc_type)) match = true;
    if (!match) {
        // a cell may also fail on its own; the repository throws its own exception classes with a text, never a bare std::exception
        // (that is what a sliced copy of any of them looks like)
        bool natural = got.what.find("simulated fault") == std::string::npos && got.type != typeid(std::exception).name() && got.what != "std::exception";
        if (natural) { res.probes.hit("natural_exception_won"); return; }     // a cell failed on its own as well: that exception is as good as ours
        std::ostringstream d; d << phase_label << ": the caller received '" << got.what << "' of type " << got.type << ", which is none of the exceptions thrown inside the phase (e.g. '" << what_of(fired[0].exc_type) << "' of type " << type_name_of(fired[0].exc_type) << ")";
        res.fail("C15", "exception.altered", d.str());
    } else res.probes.hit("exception_reached_caller_intact");
}

RunResult run_w15x(const Plan& pl) {
    RunResult res; sim::RunConfig cfg = config_from(pl); cfg.step_budget = 1500000000ull; sim::clear_faults(); sim::begin_run(cfg);
    Fnv log;
    try {
        int scen = pl.geti("scenario", 0); int n = pl.geti("ncells", 2);
        Tissue T = build_tissue(pl);
        double lmin = pl.get("lmin", 1e-6), lmax = 3 * lmin;
        if (scen == 0) {
            // ---- refine_meshes
            local_mesh_refiner lmr(lmin, lmax, pl.geti("swap", 0) != 0);
            std::vector<uint64_t> pre, ref;
            for (auto& c : T.cells) { Fnv h; hash_cell(h, *c); pre.push_back(h.h); }
            for (auto& c : T.cells) { auto cp = std::make_shared<epithelial_cell>(*static_cast<epithelial_cell*>(c.get())); cp->set_face_owner_cell(); bool ok = true; try { lmr.refine_mesh(cp); } catch (std::exception&) { ok = false; } Fnv h; hash_cell(h, *cp); ref.push_back(ok ? h.h : 0); cp->clear_data(); }
            uint64_t calls0 = sim::stats().phase_calls[sim::PH_REFINE_MESH];
            arm(pl);
            Caught got = guarded([&] { lmr.refine_meshes(T.cells); });
            uint64_t calls = sim::stats().phase_calls[sim::PH_REFINE_MESH] - calls0;
            judge(res, got, "refine_meshes");
            if (calls != (uint64_t)n) { std::ostringstream d; d << "refine_meshes returned to its caller after " << calls << " of " << n << " cells had been handed to refine_mesh"; res.fail("C15", "exception.all_members_finished", d.str()); }
            uint64_t nf = 0; for (auto& f : sim::faults()) if (f.fired) nf++;
            uint64_t untouched = 0;
            for (int k = 0; k < n; k++) {
                Fnv h; hash_cell(h, *T.cells[k]); log.add(h.h);
                if (ref[k] == 0) continue;                               // fails on its own
                if (h.h == ref[k]) continue;                              // refined like the sequential pass
                if (h.h == pre[k]) { untouched++; continue; }             // received a fault at the entry of its refinement
                std::ostringstream d; d << "cell " << k << " was left neither refined (as a sequential pass refines it) nor untouched after an exception in another member"; res.fail("C15", "exception.other_cells_completed", d.str());
            }
            if (untouched > nf) { std::ostringstream d; d << untouched << " cells were left unrefined although only " << nf << " exceptions were thrown"; res.fail("C15", "exception.other_cells_completed", d.str()); }
            res.sim_iterations = 1;
        } else if (scen == 1) {
            // ---- mesh_writer::write: parallel rebase, then two sections
            std::string dir = g_scratch + "/w15x"; mkdir(dir.c_str(), 0700); std::string cp = dir + "/cells.vtk", fp = dir + "/faces.vtk"; unlink(cp.c_str()); unlink(fp.c_str());
            uint64_t rb0 = sim::stats().phase_calls[sim::PH_REBASE];
            arm(pl);
            Caught got = guarded([&] { mesh_writer::write(cp, fp, T.cells); });
            uint64_t rb = sim::stats().phase_calls[sim::PH_REBASE] - rb0;
            judge(res, got, "mesh_writer::write");
            if (rb < (uint64_t)n) { std::ostringstream d; d << "mesh_writer::write returned to its caller after " << rb << " of " << n << " cells had been handed to rebase"; res.fail("C15", "exception.all_members_finished", d.str()); }
            bool rebase_fault = false, cell_fault = false, face_fault = false;
            for (auto& f : sim::faults()) if (f.fired) { if (f.phase == sim::PH_REBASE) rebase_fault = true; if (f.phase == sim::PH_WRITE_CELL_FILE) cell_fault = true; if (f.phase == sim::PH_WRITE_FACE_FILE) face_fault = true; }
            if (!rebase_fault && (cell_fault != face_fault)) {
                // the section that did not fail ran to completion before the exception was rethrown
                const std::string& okp = cell_fault ? fp : cp; std::string txt = slurp(okp);
                VtkDoc doc = parse_vtk(txt); std::string err = txt.empty() ? std::string("file missing or empty") : doc.err;
                if (!err.empty()) { std::ostringstream d; d << "a fault in the " << (cell_fault ? "cell" : "face") << " file section left the other file incomplete: " << err; res.fail("C15", "exception.other_section_completed", d.str()); }
                else res.probes.hit("other_section_complete");
            }
            log.adds(slurp(cp)); log.adds(slurp(fp));
            res.sim_iterations = 1;
        } else if (scen == 3) {
            // ---- start-up: simulation_initializer builds the cells of the input file in parallel
            const double R = 5e-6; std::vector<InCell> in;
            for (int k = 0; k < n; k++) { InCell c; sim::Rng sr(pl.seed * 17 + k); c.m = gen_shape(pl.geti("c" + std::to_string(k) + "_shape", 0), 1, sr); c.m.scale(R); c.m.translate(V3(4 * R * k, 0, 0)); c.type = 0; in.push_back(c); }
            std::string dir = g_scratch + "/w15x"; mkdir(dir.c_str(), 0700); std::string vp = dir + "/in.vtk", xp = dir + "/p.xml";
            spit(vp, write_vtk(in, "%.10g"));
            XmlSpec xs; xs.mesh_path = vp; xs.out_path = g_scratch + "/out15x"; xs.triangulate = false; xs.lmin = lmin; xs.cut_adh = xs.cut_rep = 0.4 * lmin; xs.dt = 1e-7; xs.sampling = 1e-6; xs.duration = 1e-6; xs.nft = 3; spit(xp, write_xml(xs));
            uint64_t c0 = sim::stats().phase_calls[sim::PH_INIT_TRIANGULATE];
            arm(pl);
            size_t built = 0;
            Caught got = guarded([&] { simulation_initializer si(xp, false); built = si.get_cell_lst().size(); for (auto& c : si.get_cell_lst()) if (c) c->clear_data(); });
            uint64_t calls = sim::stats().phase_calls[sim::PH_INIT_TRIANGULATE] - c0;
            judge(res, got, "simulation_initializer");
            if (calls != (uint64_t)n) { std::ostringstream d; d << "the initializer returned to its caller after " << calls << " of " << n << " cells had been handed to triangulate_surface"; res.fail("C15", "exception.all_members_finished", d.str()); }
            if (!got.any && built != (size_t)n) res.fail("C15", "exception.lost", "the initializer returned normally with fewer cells than the input file holds");
            log.add(built); res.sim_iterations = 1;
        } else {
            // ---- the whole iteration: the caller of run_iteration gets it
            auto S = std::make_unique<sim_solver>(T.params, T.cells, pl.geti("team", 1), true, false);
            int warm = pl.geti("warmup", 0); for (int i = 0; i < warm; i++) S->run_iteration();
            arm(pl);
            Caught got = guarded([&] { S->run_iteration(); });
            judge(res, got, "solver::run_iteration");
            for (auto& c : S->cells()) { Fnv h; hash_cell(h, *c); log.add(h.h); }
            res.sim_iterations = warm + 1;
            sim::clear_faults();
            S.reset();
        }
        for (auto& c : T.cells) c->clear_data();
    } catch (std::exception& e) { res.fail("C10", "harness.unexpected_exception", e.what()); }
    sim::clear_faults();
    res.st = sim::end_run(); res.fingerprint = log.h; res.nontrivial = res.st.faults_fired > 0;
    if (res.st.escaped_exception) res.fail("C15", "region.escaped_exception", "an exception left the body of a parallel region (std::terminate under libgomp)");
    return res;
}

Plan gen_w15x(uint64_t seed, const std::string& tier, const std::string& focus) {
    Plan pl; pl.workload = "w15x"; pl.seed = seed; sim::Rng r(seed * 7919 + 13);
    bool thorough = tier == "thorough";
    const double R = 5e-6; int n = r.range(1, thorough ? 12 : 8); pl.p["ncells"] = n;
    pl.p["lmin"] = R * r.uni(0.1, 0.3); pl.p["cut_adh"] = pl.p["cut_rep"] = 0.4 * pl.p["lmin"]; pl.p["swap"] = r.coin(0.4); pl.p["jitter"] = 0.05;
    for (int k = 0; k < n; k++) { std::string pre = "c" + std::to_string(k) + "_"; pl.p[pre + "kind"] = 0; pl.p[pre + "shape"] = (int)r.below(3); pl.p[pre + "res"] = 1; pl.p[pre + "r"] = R * r.uni(0.8, 1.2); pl.p[pre + "x"] = 5 * R * k; pl.p[pre + "seed"] = (double)r.below(1000000); }
    int scen = (int)r.below(4); pl.p["scenario"] = scen;
    pl.p["clock"] = (int)r.below(3); draw_schedule(pl, r, thorough ? 16 : 8);
    static const int types[] = {sim::EX_DIVISION, sim::EX_BPA, sim::EX_MESH_INTEGRITY, sim::EX_MESH_WRITER, sim::EX_INIT_TRI, sim::EX_RUNTIME};
    int nf = r.coin(0.1) ? 0 : (r.coin(0.6) ? 1 : r.range(2, 3));
    for (int q = 0; q < nf; q++) {
        int ph; int k;
        if (scen == 0) { ph = sim::PH_REFINE_MESH; k = r.coin(0.3) ? (r.coin(0.5) ? 1 : n) : r.range(1, n); }
        else if (scen == 1) { double u = r.uni(); if (u < 0.5) { ph = sim::PH_REBASE; k = r.coin(0.3) ? (r.coin(0.5) ? 1 : n) : r.range(1, n); } else { ph = u < 0.75 ? sim::PH_WRITE_CELL_FILE : sim::PH_WRITE_FACE_FILE; k = 1; } }
        else if (scen == 3) { ph = sim::PH_INIT_TRIANGULATE; k = r.coin(0.3) ? (r.coin(0.5) ? 1 : n) : r.range(1, n); }
        else { double u = r.uni(); if (u < 0.5) { ph = sim::PH_REFINE_MESH; k = r.range(1, n); } else if (u < 0.75) { ph = sim::PH_REBASE; k = r.range(1, n); } else { ph = u < 0.88 ? sim::PH_WRITE_CELL_FILE : sim::PH_WRITE_FACE_FILE; k = 1; } }
        pl.ops.push_back({"fault", {(double)ph, (double)k, (double)types[r.below(6)]}});
    }
    if (scen == 2) { pl.p["warmup"] = r.coin(0.5) ? 0 : r.range(1, 3); pl.p["sampling"] = 1e-7; pl.p["dt"] = 1e-7; }   // a file is written at every iteration
    return pl;
}

std::vector<Plan> shrink_w15x(const Plan& p) {
    std::vector<Plan> out;
    if (p.geti("team", 1) > 2) { Plan q = p; q.p["team"] = 2; out.push_back(q); }
    if (p.geti("strategy", 0) != 0) { Plan q = p; q.p["strategy"] = 0; out.push_back(q); }
    if (p.geti("warmup", 0) > 0) { Plan q = p; q.p["warmup"] = 0; out.push_back(q); }
    int n = p.geti("ncells", 1); if (n > 1) { Plan q = p; q.p["ncells"] = n - 1; bool ok = true; for (auto& op : q.ops) if (op.name == "fault" && op.arg(1) > n - 1) ok = false; if (ok) out.push_back(q); }
    return out;
}

Register reg_w15x({"w15x", gen_w15x, run_w15x, shrink_w15x});
}
