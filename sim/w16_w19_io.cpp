// W16: mesh files written by the simulator are read back as the same tissue (C16).
// W19: whole solver::run() with output files and statistics checked against snapshots taken at write time (C19).
#include "harness/tissue.hpp"
#include "harness/iofmt.hpp"
#include "mesh_writer.hpp"
#include "mesh_reader.hpp"
#include "simulation_initializer.hpp"
#include <dirent.h>
#include <regex>

using namespace hz;

namespace {

struct TriRec { std::array<V3, 3> p; };
struct CellRec { unsigned id; int type; std::vector<TriRec> tris; size_t live_nodes; double area, volume, target, pressure; };

static CellRec rec_of(cell& c) {
    CellRec r; r.id = c.get_id(); r.type = c.get_cell_type() ? c.get_cell_type()->global_type_id_ : -1; CellView v = view_of(c); r.live_nodes = 0; for (char u : v.nused) r.live_nodes += u;
    for (size_t i = 0; i < v.tri.size(); i++) if (v.fused[i]) r.tris.push_back({{v.pos[v.tri[i][0]], v.pos[v.tri[i][1]], v.pos[v.tri[i][2]]}});
    r.area = c.get_area(); r.volume = c.get_volume(); r.target = c.get_target_volume(); r.pressure = c.get_pressure();
    return r;
}
static bool close_printed(double written, double orig, int digits) {   // equal to the printed precision (half a unit of the last printed digit)
    if (orig == 0) return written == 0; double e = std::floor(std::log10(std::fabs(orig))); double unit = std::pow(10.0, e - (digits - 1));
    return std::fabs(written - orig) <= 0.5000001 * unit + 1e-300;
}
static std::string fmt3(double x) { char b[64]; snprintf(b, sizeof b, "%.3e", x); return b; }

// compare meshes returned by the real reader with the snapshot
static std::string compare_read(const std::vector<mesh>& meshes, const std::vector<CellRec>& snap) {
    std::ostringstream e;
    if (meshes.size() != snap.size()) { e << "file has " << meshes.size() << " cells, population had " << snap.size(); return e.str(); }
    for (size_t c = 0; c < snap.size(); c++) {
        const mesh& m = meshes[c];
        if (m.face_point_ids.size() != snap[c].tris.size()) { e << "cell at position " << c << ": " << snap[c].tris.size() << " triangles in the cell, " << m.face_point_ids.size() << " read back"; return e.str(); }
        if (m.node_pos_lst.size() / 3 != snap[c].live_nodes) { e << "cell at position " << c << ": " << snap[c].live_nodes << " nodes in the cell, " << m.node_pos_lst.size() / 3 << " read back"; return e.str(); }
        for (size_t f = 0; f < m.face_point_ids.size(); f++) {
            const auto& face = m.face_point_ids[f]; if (face.size() != 3) { e << "cell " << c << " face " << f << " read back with " << face.size() << " nodes"; return e.str(); }
            for (int k = 0; k < 3; k++) { if (face[k] * 3 + 2 >= m.node_pos_lst.size()) { e << "cell " << c << " face " << f << " refers to a point outside the cell"; return e.str(); }
                for (int q = 0; q < 3; q++) { double w = m.node_pos_lst[face[k] * 3 + q], o = snap[c].tris[f].p[k][q]; if (!close_printed(w, o, 5)) { e << "cell at position " << c << " triangle " << f << " node " << k << ": coordinate " << o << " was read back as " << w; return e.str(); } } }
        }
    }
    return "";
}

// ---------------------------------------------------------------------------------------------- W16
RunResult run_w16(const Plan& pl) {
    RunResult res; sim::RunConfig cfg = config_from(pl); cfg.step_budget = 1500000000ull; sim::clear_faults(); sim::begin_run(cfg);
    Fnv log;
    try {
        Tissue T = build_tissue(pl);
        double scale = pl.get("coord_scale", 1.0); V3 off(pl.get("coord_off_x", 0), pl.get("coord_off_y", 0), pl.get("coord_off_z", 0));
        if (scale != 1.0 || off.n2() > 0) for (auto& c : T.cells) { for (auto& n : cell_tester::nodes(*c)) if (n.is_used()) { V3 p = V3(n.pos()) * scale + off; cell_tester::pos(n).reset(p.x, p.y, p.z); } c->update_all_face_normals_and_areas(); }
        for (size_t i = 0; i < T.cells.size(); i++) { T.cells[i]->set_id((unsigned)pl.get("id_base", 0) + (unsigned)i * (unsigned)pl.get("id_stride", 1)); T.cells[i]->set_local_id(i); }
        double lmin = pl.get("lmin", 1e-6) * scale; local_mesh_refiner lmr(lmin, 3 * lmin, pl.geti("swap", 0) != 0);
        // history: create unused slots (merges / splits without compaction)
        for (const Op& op : pl.ops) {
            cell_ptr c = T.cells[(size_t)op.arg(0) % T.cells.size()];
            try {
                if (op.name == "refine") lmr.refine_mesh(c);
                else if (op.name == "split" || op.name == "merge") { auto& ES = cell_tester::edges(*c); auto it = ES.begin(); std::advance(it, (size_t)op.arg(1) % ES.size()); edge e = *it; edge_set dummy = ES; if (op.name == "split") lmr.split_edge(e, c, dummy); else if (lmr.can_be_merged(e, c)) lmr.merge_edge(e, c, dummy); }
                else if (op.name == "squash") { Geo g = geometry(view_of(*c)); for (auto& n : cell_tester::nodes(*c)) if (n.is_used()) { V3 p = g.centroid_area + (V3(n.pos()) - g.centroid_area) * op.arg(1, 0.6); cell_tester::pos(n).reset(p.x, p.y, p.z); } c->update_all_face_normals_and_areas(); }
            } catch (std::exception&) { res.probes.hit("history_op_threw"); }
        }
        size_t free_slots = 0; for (auto& c : T.cells) free_slots += cell_tester::free_nodes(*c).size() + cell_tester::free_faces(*c).size();
        if (free_slots) res.probes.hit("written_with_unused_slots");
        std::vector<CellRec> snap; for (auto& c : T.cells) snap.push_back(rec_of(*c));
        std::string dir = g_scratch + "/w16"; mkdir(dir.c_str(), 0700); std::string cpath = dir + "/cells.vtk", fpath = dir + "/faces.vtk";
        int how = pl.geti("how", 0); bool have_types = false;
        try {
            if (how == 0) mesh_writer::write_cell_data_file(cpath, T.cells);                    // cell list, compacting
            else if (how == 1) { mesh_writer::write(cpath, fpath, T.cells); have_types = true; }  // what solver::save_mesh uses (parallel sections)
            else { for (auto& c : T.cells) c->rebase(); std::vector<mesh> ml; for (auto& c : T.cells) ml.push_back(c->get_mesh()); mesh_writer::write_cell_data_file(cpath, ml); }
        } catch (std::exception& e) { res.fail("C16", "write_threw", std::string("writing a valid population threw: ") + e.what()); }
        res.sim_iterations++;
        if (res.viol.empty()) {
            std::string text = slurp(cpath); log.adds(text);
            VtkDoc d = parse_vtk(text);
            if (!d.err.empty()) res.fail("C16", "declared_counts", "cell-data file: " + d.err);
            else {
                size_t nodes = 0; for (auto& s : snap) nodes += s.live_nodes; if (d.npoints != nodes) { std::ostringstream e; e << "POINTS " << d.npoints << " but the population has " << nodes << " live nodes"; res.fail("C16", "points_count", e.str()); }
                if (d.ncells != snap.size()) res.fail("C16", "cells_count", "CELLS count differs from the population size");
                for (long t : d.types) if (t != 42) res.fail("C16", "cell_types", "cell-data file has a VTK cell type other than 42");
                if (have_types) { const VtkArray* a = d.array("cell_type_id"); const VtkArray* b = d.array("cell_id"); if (!a || !b) res.fail("C16", "arrays_missing", "cell_type_id / cell_id arrays missing"); else for (size_t i = 0; i < snap.size() && i < a->v.size(); i++) { if (atoi(a->v[i].c_str()) != snap[i].type) res.fail("C16", "array_cell_type", "cell_type_id array does not match the population"); if ((unsigned)atol(b->v[i].c_str()) != snap[i].id) res.fail("C16", "array_cell_id", "cell_id array does not match the population"); } }
            }
            if (res.viol.empty()) {
                try {
                    mesh_reader rd(cpath, false); std::vector<mesh> meshes = rd.read();
                    std::string e = compare_read(meshes, snap); if (!e.empty()) res.fail("C16", "roundtrip", e);
                    if (have_types && res.viol.empty()) { std::vector<short> types = rd.get_cell_types(); if (types.size() != snap.size()) res.fail("C16", "types_count", "number of cell types read back differs from the number of cells"); else for (size_t i = 0; i < snap.size(); i++) if (types[i] != snap[i].type) { res.fail("C16", "types_roundtrip", "cell type read back differs"); break; } }
                } catch (std::exception& e) { res.fail("C16", "read_threw", std::string("the reader rejected a file written by the writer: ") + e.what()); }
            }
            if (how == 1 && res.viol.empty()) { VtkDoc f = parse_vtk(slurp(fpath)); if (!f.err.empty()) res.fail("C16", "face_file_counts", "face-data file: " + f.err); }
            // (iii) output of a run used as input geometry of another run
            if (have_types && res.viol.empty() && pl.geti("feed_back", 0)) {
                XmlSpec xs; xs.mesh_path = cpath; xs.out_path = g_scratch + "/out16"; xs.lmin = lmin; std::string xp = dir + "/p.xml"; spit(xp, write_xml(xs));
                try { simulation_initializer si(xp, false); auto L = si.get_cell_lst(); res.probes.hit("fed_back");
                    if (L.size() != snap.size()) res.fail("C16", "feedback_count", "re-initialising from the written file gives another number of cells");
                    for (auto& c : L) { TopoOpts o; o.volume_before = 1e300; std::string e = check_topology(*c, o); if (!e.empty()) { res.fail("C16", "feedback_topology", "cell re-initialised from the written file: " + e); break; } }
                } catch (std::exception& e) { res.fail("C16", "feedback_threw", std::string("a written file was rejected as input geometry: ") + e.what()); }
            }
        }
    } catch (std::exception& e) { res.fail("C10", "harness.unexpected_exception", e.what()); }
    res.st = sim::end_run(); res.fingerprint = log.h; res.nontrivial = true;
    return res;
}

Plan gen_w16(uint64_t seed, const std::string& tier, const std::string& focus) {
    Plan pl; pl.workload = "w16"; pl.seed = seed; sim::Rng r(seed * 86028121 + 17);
    const double R = 5e-6; pl.p["lmin"] = R * r.uni(0.15, 0.4); int n = r.range(1, 6); pl.p["ncells"] = n;
    for (int k = 0; k < n; k++) { std::string pre = "c" + std::to_string(k) + "_"; pl.p[pre + "kind"] = (int)r.below(5); pl.p[pre + "shape"] = (int)r.below(SH_COUNT); pl.p[pre + "res"] = r.coin(0.8) ? 1 : 2; pl.p[pre + "r"] = R * r.uni(0.6, 1.4); pl.p[pre + "x"] = 3.2 * R * k; pl.p[pre + "seed"] = (double)r.below(1000000); }
    int how = (int)r.below(3); pl.p["how"] = how;
    if (r.coin(0.5)) { static const double sc[] = {1e-4, 1e-2, 1, 1e3, 1e6, 1e9}; pl.p["coord_scale"] = sc[r.below(6)]; }
    if (r.coin(0.4)) { double m = pl.get("coord_scale", 1) * R * std::pow(10.0, r.range(0, 3)); pl.p["coord_off_x"] = r.uni(-m, m); pl.p["coord_off_y"] = r.uni(-m, m); pl.p["coord_off_z"] = r.uni(-m, m); }
    if (r.coin(0.5)) { pl.p["id_base"] = r.range(0, 50); pl.p["id_stride"] = r.range(1, 7); }
    pl.p["feed_back"] = (how == 1 && !pl.p.count("coord_off_x")) ? 1 : 0;
    draw_schedule(pl, r, 8);
    int nops = r.range(0, 8); for (int i = 0; i < nops; i++) { double u = r.uni(); double ci = (double)r.below(n); if (u < 0.3) pl.ops.push_back({"merge", {ci, (double)r.below(100000)}}); else if (u < 0.5) pl.ops.push_back({"split", {ci, (double)r.below(100000)}}); else if (u < 0.7) pl.ops.push_back({"squash", {ci, r.uni(0.4, 0.8)}}); else pl.ops.push_back({"refine", {ci}}); }
    return pl;
}

// ---------------------------------------------------------------------------------------------- W19
struct WriteSnap { std::vector<CellRec> cells; double time; unsigned iteration; };

static std::vector<std::string> list_dir(const std::string& d) { std::vector<std::string> v; DIR* dp = opendir(d.c_str()); if (!dp) return v; while (dirent* e = readdir(dp)) { std::string n = e->d_name; if (n != "." && n != "..") v.push_back(n); } closedir(dp); std::sort(v.begin(), v.end()); return v; }

RunResult run_w19(const Plan& pl) {
    RunResult res; sim::RunConfig cfg = config_from(pl); cfg.step_budget = 4000000000ull; sim::clear_faults(); sim::begin_run(cfg);
    Fnv log;
    try {
        Tissue T = build_tissue(pl); const double dt = T.params.time_step_, Sp = T.params.sampling_period_, Tend = T.params.simulation_duration_;
        bool in_string = pl.geti("stats_in_string", 0) != 0;
        auto S = std::make_unique<sim_solver>(T.params, T.cells, pl.geti("team", 1), in_string, false);
        std::vector<WriteSnap> mesh_snaps, stat_snaps; sim_solver* SP = S.get();
        sim::set_phase_cb([&](int ph, bool en, bool reg) { if (reg || !en) return; if (ph == sim::PH_MESH_WRITE) { WriteSnap w; for (auto& c : SP->cells()) w.cells.push_back(rec_of(*c)); w.time = SP->time(); w.iteration = SP->iteration(); mesh_snaps.push_back(w); } else if (ph == sim::PH_STATS_WRITE) { WriteSnap w; for (auto& c : SP->cells()) w.cells.push_back(rec_of(*c)); w.time = SP->time(); w.iteration = SP->iteration(); stat_snaps.push_back(w); } });
        bool threw = false;
        try { S->run(); } catch (mesh_integrity_exception&) { threw = true; res.probes.hit("run_threw_mesh_integrity"); } catch (std::exception& e) { threw = true; res.probes.hit("run_threw_other"); }
        sim::set_phase_cb(nullptr);
        unsigned iters = S->iteration(); res.sim_iterations = iters; res.sim_time = S->time(); bool extinct = S->cells().empty(); if (extinct) res.probes.hit("extinct");
        if (!threw) {
            // time advances by one time step per iteration until T is reached
            double t = 0; unsigned n = 0; while (t < Tend && n < iters + 5) { t += dt; n++; }
            if (!extinct) { if (iters != n) { std::ostringstream e; e << "run stopped after " << iters << " iterations, accumulating dt=" << dt << " up to T=" << Tend << " takes " << n; res.fail("C19", "iteration_count", e.str()); } if (!bits_equal(S->time(), t)) res.fail("C19", "final_time", "simulated time at the end is not the accumulated sum of time steps"); }
            else { double te = 0; for (unsigned i = 0; i < iters; i++) te += dt; if (!bits_equal(S->time(), te)) res.fail("C19", "final_time", "simulated time at extinction is not iterations*dt (accumulated)"); }
            // files
            std::string out = T.params.output_folder_path_; auto cf = list_dir(out + "/cell_data"), ff = list_dir(out + "/face_data");
            size_t K = mesh_snaps.size();
            std::set<std::string> expect; for (size_t k = 1; k <= K; k++) expect.insert("result_" + std::to_string(k) + ".vtk");
            if (std::set<std::string>(cf.begin(), cf.end()) != expect) { std::ostringstream e; e << "cell_data holds " << cf.size() << " files, expected result_1.." << K << " without gaps (mesh_writer::write was entered " << K << " times)"; res.fail("C19", "cell_files_numbering", e.str()); }
            if (std::set<std::string>(ff.begin(), ff.end()) != expect) res.fail("C19", "face_files_numbering", "face_data files are not result_1..K in pairs with the cell_data files");
            double t_end = S->time(); double ideal = std::floor(std::min(t_end, Tend) / Sp) + 1;
            if (std::fabs((double)K - ideal) > 1.0) { std::ostringstream e; e << K << " output files for duration " << t_end << " and sampling period " << Sp << " (expected within one of " << ideal << ")"; res.fail("C19", "file_count", e.str()); }
            for (size_t k = 0; k < K && res.viol.empty(); k++) {
                std::string text = slurp(out + "/cell_data/result_" + std::to_string(k + 1) + ".vtk"); log.adds(text); VtkDoc d = parse_vtk(text);
                std::ostringstream who; who << "cell_data/result_" << k + 1 << ".vtk: ";
                if (!d.err.empty()) { res.fail("C19", "cell_file_wellformed", who.str() + d.err); break; }
                const WriteSnap& w = mesh_snaps[k]; size_t nodes = 0; for (auto& c : w.cells) nodes += c.live_nodes;
                if (d.ncells != w.cells.size()) { who << "describes " << d.ncells << " cells, " << w.cells.size() << " were alive when it was written"; res.fail("C19", "cell_file_population", who.str()); break; }
                if (d.npoints != nodes) { res.fail("C19", "cell_file_points", who.str() + "number of points differs from the live nodes of the population"); break; }
                const VtkArray *ai = d.array("cell_id"), *at = d.array("cell_type_id"), *av = d.array("cell_volume"), *aa = d.array("cell_area"), *ap = d.array("cell_pressure");
                if (!ai || !at || !av || !aa || !ap) { res.fail("C19", "cell_file_arrays", who.str() + "a documented cell array is missing"); break; }
                for (size_t c = 0; c < w.cells.size(); c++) {
                    if ((unsigned)atol(ai->v[c].c_str()) != w.cells[c].id || atoi(at->v[c].c_str()) != w.cells[c].type) { res.fail("C19", "cell_file_ids", who.str() + "cell ids / types do not match the cells alive at write time"); break; }
                    if (d.cells[c].empty() || (size_t)d.cells[c][0] != w.cells[c].tris.size()) { res.fail("C19", "cell_file_faces", who.str() + "a cell's face count differs from its live triangles"); break; }
                    if (av->v[c] != fmt3(w.cells[c].volume) || aa->v[c] != fmt3(w.cells[c].area) || ap->v[c] != fmt3(w.cells[c].pressure)) { res.fail("C19", "cell_file_values", who.str() + "cell_volume/area/pressure arrays differ from the cell's values at write time"); break; }
                }
                VtkDoc f = parse_vtk(slurp(out + "/face_data/result_" + std::to_string(k + 1) + ".vtk")); size_t nf = 0; for (auto& c : w.cells) nf += c.tris.size();
                if (!f.err.empty()) { res.fail("C19", "face_file_wellformed", "face_data/result_" + std::to_string(k + 1) + ".vtk: " + f.err); break; }
                if (f.ncells != nf) { res.fail("C19", "face_file_population", "face-data file does not hold one triangle per live face"); break; }
            }
            // statistics
            std::string csv = in_string ? S->get_simulation_statistics() : slurp(out + "/simulation_statistics.csv"); log.adds(std::to_string(csv.size()));
            std::vector<std::string> lines; { std::istringstream in(csv); std::string l; while (std::getline(in, l)) if (!l.empty()) lines.push_back(l); }
            auto split = [](const std::string& l) { std::vector<std::string> v; std::string cur; for (char ch : l) { if (ch == ',') { v.push_back(cur); cur.clear(); } else cur += ch; } if (!cur.empty()) v.push_back(cur); return v; };
            if (lines.empty()) res.fail("C19", "stats_header", "statistics table has no header");
            else {
                auto H = split(lines[0]); std::map<std::string, int> col; for (size_t i = 0; i < H.size(); i++) col[H[i]] = (int)i;
                for (const char* need : {"iteration", "simulation_time", "cell_id", "type_id", "area", "volume", "target_volume", "pressure"}) if (!col.count(need)) { res.fail("C19", "stats_header", std::string("statistics header lacks column ") + need); break; }
                size_t headers = 0; for (auto& l : lines) if (l.compare(0, 9, "iteration") == 0) headers++; if (headers != 1) res.fail("C19", "stats_header", "statistics table does not have exactly one header");
                // expected rows
                size_t row = 1; std::regex clock_re("^-?[0-9]+:-?[0-9]+:-?[0-9]+$");
                // recorded iterations: every 50th, and the last
                std::vector<unsigned> rec_it; for (auto& w : stat_snaps) rec_it.push_back(w.iteration);
                for (size_t s = 0; s + 1 < stat_snaps.size(); s++) if (stat_snaps[s].iteration % 50 != 0) res.fail("C19", "stats_cadence", "statistics were recorded at an iteration that is not a multiple of 50");
                { unsigned expect_calls = 0; for (unsigned i = 0; i < iters; i++) if (i % 50 == 0) expect_calls++; expect_calls++; if (stat_snaps.size() != expect_calls) { std::ostringstream e; e << "statistics recorded " << stat_snaps.size() << " times over " << iters << " iterations, expected every 50th and the last = " << expect_calls; res.fail("C19", "stats_cadence", e.str()); } }
                for (auto& w : stat_snaps) { for (auto& c : w.cells) {
                        if (row >= lines.size()) { res.fail("C19", "stats_rows", "statistics table has fewer rows than cells alive at the recorded iterations"); goto stats_done; }
                        auto Rw = split(lines[row]); row++;
                        if (Rw.size() != H.size()) { res.fail("C19", "stats_arity", "a statistics row does not have as many fields as the header"); goto stats_done; }
                        if (Rw[col["iteration"]] != std::to_string(w.iteration)) { res.fail("C19", "stats_iteration", "iteration column does not match the recorded iteration"); goto stats_done; }
                        if (!std::regex_match(Rw[col["computation_time_(hh::mm:ss)"]], clock_re)) { res.fail("C19", "stats_clock_format", "computation time column is not hh:mm:ss"); goto stats_done; }
                        if ((unsigned)atol(Rw[col["cell_id"]].c_str()) != c.id || atoi(Rw[col["type_id"]].c_str()) != c.type) { res.fail("C19", "stats_ids", "statistics row does not carry the id / type of the cell alive when recorded"); goto stats_done; }
                        if (Rw[col["area"]] != fmt3(c.area) || Rw[col["volume"]] != fmt3(c.volume) || Rw[col["target_volume"]] != fmt3(c.target) || Rw[col["pressure"]] != fmt3(c.pressure)) { std::ostringstream e; e << "statistics row of cell " << c.id << " at iteration " << w.iteration << ": area/volume/target volume/pressure differ from the cell's values (" << Rw[col["volume"]] << " vs " << fmt3(c.volume) << ")"; res.fail("C19", "stats_values", e.str()); goto stats_done; }
                    } }
                if (row != lines.size()) res.fail("C19", "stats_rows", "statistics table has more rows than cells alive at the recorded iterations");
                stats_done:;
            }
        }
        S.reset();
        res.probes.hit("output_files", mesh_snaps.size()); res.probes.hit("stat_records", stat_snaps.size());
        if (sim::stats().clock_backwards) res.probes.hit("clock_went_backwards");
    } catch (std::exception& e) { res.fail("C10", "harness.unexpected_exception", e.what()); }
    sim::set_phase_cb(nullptr);
    res.st = sim::end_run(); res.fingerprint = log.h; res.nontrivial = res.sim_iterations >= 2;
    return res;
}

Plan gen_w19(uint64_t seed, const std::string& tier, const std::string& focus) {
    Plan pl; pl.workload = "w19"; pl.seed = seed; sim::Rng r(seed * 67867967 + 5);
    bool thorough = tier == "thorough";
    const double R = 5e-6; pl.p["lmin"] = R * r.uni(0.25, 0.4); pl.p["cut_adh"] = pl.p["cut_rep"] = 0.4 * pl.p["lmin"];
    static const double dts[] = {1e-7, 1e-7, 5e-8, 2e-7, 1.3e-7}; double dt = dts[r.below(5)]; pl.p["dt"] = dt;
    static const double sr[] = {1, 1.0000001, 3, 7.3, 50, 2.5, 12}; double Sp = dt * sr[r.below(7)]; pl.p["sampling"] = Sp;
    int max_it = thorough ? 600 : 160; double ts = r.coin(0.5) ? r.uni(0.5, 12.7) : (double)r.range(1, 12); double Tend = Sp * ts; if (Tend / dt > max_it) Tend = dt * r.uni(20, max_it); if (Tend < dt) Tend = dt * 1.5; pl.p["duration"] = Tend;
    int n = r.range(1, 3); pl.p["ncells"] = n; for (int k = 0; k < n; k++) { std::string pre = "c" + std::to_string(k) + "_"; pl.p[pre + "kind"] = r.coin(0.7) ? 0 : (int)r.below(5); pl.p[pre + "shape"] = (int)r.below(3); pl.p[pre + "res"] = 1; pl.p[pre + "r"] = R * r.uni(0.8, 1.2); pl.p[pre + "x"] = 2.6 * R * k; pl.p[pre + "seed"] = (double)r.below(1000000); }
    double V0 = 4.18879 * R * R * R; pl.p["min_vol"] = 1e-17; pl.p["min_vol_other"] = 1e-17; int sc = (int)r.below(5);
    if (sc == 1) { pl.p["growth"] = r.uni(2e-11, 6e-11); pl.p["div_vol"] = V0 * r.uni(0.5, 1.02); }
    if (sc == 2) { pl.p["growth"] = -r.uni(4e-11, 1e-10); pl.p["min_vol"] = V0 * r.uni(0.6, 0.95); pl.p["min_vol_other"] = V0 * 0.9; }   // removal, possibly extinction
    if (sc == 3) { pl.p["growth"] = r.uni(1e-11, 4e-11); pl.p["growth_sigma"] = 4e-12; }
    pl.p["stats_in_string"] = r.coin(0.4); pl.p["clock"] = (int)r.below(3);
    draw_schedule(pl, r, 8);
    return pl;
}

std::vector<Plan> shrink_io(const Plan& p) {
    std::vector<Plan> out;
    if (p.geti("team", 1) > 1) { Plan q = p; q.p["team"] = 1; q.p["strategy"] = 0; out.push_back(q); }
    if (p.geti("clock", 0) != 0) { Plan q = p; q.p["clock"] = 0; out.push_back(q); }
    int n = p.geti("ncells", 1); if (n > 1) { Plan q = p; q.p["ncells"] = n - 1; out.push_back(q); }
    if (p.p.count("duration")) { Plan q = p; q.p["duration"] = p.get("duration") / 2; if (q.p["duration"] >= p.get("dt")) out.push_back(q); }
    return out;
}

Register reg_w16({"w16", gen_w16, run_w16, shrink_io});
Register reg_w19({"w19", gen_w19, run_w19, shrink_io});
}
