// simgomp: a deterministic replacement for libgomp plus the other seams of the simulator.
//  * the 16 GOMP_*/omp_* entry points the repository uses, with a seeded scheduler that
//    releases exactly one team member at a time (serialised mode) or lets them run
//    concurrently on real threads under pthread primitives (free-running mode, TSan only);
//  * __cyg_profile_func_enter/exit: preemption points inside loop bodies, phase callbacks,
//    exception injection, logical step counter (deterministic hang detection);
//  * std::chrono::system_clock::now() and rand()/srand(): simulated clock and C RNG.
// This file is compiled WITHOUT -finstrument-functions.
#include "sim.hpp"
#include <pthread.h>
#include <semaphore.h>
#include <sched.h>
#include <unistd.h>
#include <sys/syscall.h>
#include <linux/futex.h>
#include <dlfcn.h>
#include <cxxabi.h>
#include <atomic>
#include <chrono>
#include <cstdio>
#include <cstdlib>
#include <cstring>
#include <string>
#include <vector>
#include <stdexcept>
#include <algorithm>
#include "custom_exception.hpp"

#ifdef SIM_TSAN
extern "C" void __tsan_acquire(void* addr);
extern "C" void __tsan_release(void* addr);
#define TSAN_ACQ(a) __tsan_acquire(a)
#define TSAN_REL(a) __tsan_release(a)
#else
#define TSAN_ACQ(a) ((void)0)
#define TSAN_REL(a) ((void)0)
#endif

namespace sim {

static const int MAXT = 16;

enum MState { M_IDLE = 0, M_NOT_STARTED, M_RUNNABLE, M_BLOCKED, M_AT_BARRIER, M_FINISHED };

// one work-sharing loop (schedule dynamic / guided / runtime): iterations are handed out in chunks of the iteration index space
struct LoopWS {
    uint64_t n_iter = 0, next = 0, chunk = 1; bool guided = false;
    bool is_ull = false, up = true; long s_start = 0, s_incr = 1; unsigned long long u_start = 0, u_incr = 1;
};

struct Member {
    uint64_t ws_seen = 0, single_seen = 0;   // work-sharing constructs this member has entered in the current region
    int idx = 0;
    pthread_t th{};
    sem_t sem;
    int gate = 0;     // SIM_TSAN: futex word, 1 = may run
    bool thread_created = false;
    volatile int state = M_IDLE;
    const void* blocked_on = nullptr;
    long prio = 0;
};

struct Region {
    void (*fn)(void*) = nullptr;
    void* data = nullptr;
    int n = 1;
    int finished = 0;
    uint64_t step = 0;
    unsigned sections_count = 0, sections_next = 0;
    int crit_owner = -1, atomic_owner = -1;
    LoopWS ws; uint64_t ws_gen = 0, single_gen = 0;        // current work-sharing loop / single construct and how many were started
    int bar_count = 0; uint64_t bar_gen = 0;               // explicit barriers
    const void* named_key[8] = {nullptr}; int named_owner[8] = {-1, -1, -1, -1, -1, -1, -1, -1};   // named critical sections
    int label = 0;
    std::vector<uint64_t> change_points;   // PCT
    long low_prio = -1000;
    bool active = false;
};

struct Global {
    RunConfig cfg;
    Stats st;
    Rng rng{1}, clk_rng{2};
    bool running = false;
    Member mem[MAXT];
    Region reg;
    int cur = 0;
    int default_team = 1;
    std::vector<SwitchEv> tr;
    std::vector<ExcFault> faults;
    PhaseCb phase_cb;
    RegionCb region_cb;
    int64_t clock_val = 0;
    unsigned long rand_state = 1;
    // per region-function estimate of steps, for PCT change points
    const void* est_key[64]; uint64_t est_val[64]; int est_n = 0;
    // free-running
    pthread_mutex_t fr_crit = PTHREAD_MUTEX_INITIALIZER, fr_atomic = PTHREAD_MUTEX_INITIALIZER;
    pthread_mutex_t fr_mu = PTHREAD_MUTEX_INITIALIZER; pthread_cond_t fr_cv = PTHREAD_COND_INITIALIZER;
    int fr_pending = 0;
    pthread_mutex_t fr_named = PTHREAD_MUTEX_INITIALIZER;
};
static Global G;

// Handing the CPU from one team member to the next. In the sanitizer-free and ASan builds this is a semaphore. In the
// TSan build it is a futex word handled by this (uninstrumented) file: ThreadSanitizer models neither, so the
// hand-off creates NO happens-before edge, and the only edges TSan sees between team members are the ones OpenMP
// itself guarantees (fork, join, critical, atomic, locks), annotated explicitly with __tsan_acquire/release. A
// serialised, seeded, replayable schedule is thereby checked by TSan's vector clocks as if the members had really
// run concurrently: two conflicting accesses of different members without OpenMP synchronisation between them are
// reported wherever the schedule puts them, and the same seed reports them again.
#ifdef SIM_TSAN
static void gate_post(Member& m) { __atomic_store_n(&m.gate, 1, __ATOMIC_RELEASE); syscall(SYS_futex, &m.gate, FUTEX_WAKE_PRIVATE, 1, nullptr, nullptr, 0); }
static void gate_wait(Member& m) { for (;;) { int one = 1; if (__atomic_compare_exchange_n(&m.gate, &one, 0, false, __ATOMIC_ACQUIRE, __ATOMIC_RELAXED)) return; syscall(SYS_futex, &m.gate, FUTEX_WAIT_PRIVATE, 0, nullptr, nullptr, 0); } }
static const bool kCallbacksInRegion = false;     // harness monitors run on member threads would be reported as races of their own
#else
static void gate_post(Member& m) { sem_post(&m.sem); }
static void gate_wait(Member& m) { sem_wait(&m.sem); }
static const bool kCallbacksInRegion = true;
#endif
static char tok_fork, tok_join, tok_crit, tok_atomic;   // addresses standing for OpenMP's synchronisation objects (TSan annotations)

static thread_local int tl_member = -1;     // index in the current outermost region, -1 = not a member
static thread_local int tl_nest = 0;        // depth of nested (inlined, team of one) regions
static thread_local int tl_quiet = 0;       // >0: instrumentation has no effect on this thread
static thread_local int tl_in_hook = 0;
static thread_local LoopWS tl_solo;          // work-sharing loop of a team of one (nested / inlined regions, serial contexts)

const char* strategy_name(int s) { static const char* n[] = {"rtc", "rtc-perm", "pct", "rw", "starve"}; return (s >= 0 && s < 5) ? n[s] : "?"; }

static const char* PHN[PH_COUNT] = {
    "none", "divider_run", "divide_cell", "refine_meshes", "refine_mesh", "split", "merge", "swap",
    "contact_run", "apply_internal", "update_pos", "mesh_write", "write_cell_file", "write_face_file",
    "stats_write", "save_mesh", "run_iteration", "rebase", "init_cell_props",
    "div_add_intersection", "div_divide_faces", "div_triangulate_if", "div_create_daughters",
    "poisson_cloud", "triangulate_surface", "bpa_seed", "bpa_fill_holes", "special_polarization",
    "update_face_types", "init_triangulate", "bpa_run", "poisson_disk"};
const char* phase_name(int ph) { return (ph >= 0 && ph < PH_COUNT) ? PHN[ph] : "?"; }

Quiet::Quiet() { tl_quiet++; }
Quiet::~Quiet() { tl_quiet--; }

// ------------------------------------------------------------------------------------
// phase table: function address -> phase id, resolved once by symbol name
struct PhasePat { const char* prefix; int ph; };
static const PhasePat PATS[] = {
    {"cell_divider::run(", PH_DIVIDER_RUN},
    {"cell_divider::divide_cell(", PH_DIVIDE_CELL},
    {"local_mesh_refiner::refine_meshes(", PH_REFINE_MESHES},
    {"local_mesh_refiner::refine_mesh(", PH_REFINE_MESH},
    {"local_mesh_refiner::split_edge(", PH_SPLIT},
    {"local_mesh_refiner::merge_edge(", PH_MERGE},
    {"local_mesh_refiner::swap_edge(", PH_SWAP},
    {"contact_node_node_via_coupling::run(", PH_CONTACT_RUN},
    {"contact_node_face_via_spring::run(", PH_CONTACT_RUN},
    {"contact_face_face_via_coupling::run(", PH_CONTACT_RUN},
    {"cell::apply_internal_forces(", PH_APPLY_INTERNAL},
    {"time_integration_scheme::update_nodes_positions(", PH_UPDATE_POS},
    {"mesh_writer::write(", PH_MESH_WRITE},
    {"mesh_writer::write_cell_data_file(", PH_WRITE_CELL_FILE},
    {"mesh_writer::write_face_data_file(", PH_WRITE_FACE_FILE},
    {"csv_file_statistics_writer::write_data(", PH_STATS_WRITE},
    {"string_statistics_writer::write_data(", PH_STATS_WRITE},
    {"solver::save_mesh(", PH_SAVE_MESH},
    {"solver::run_iteration(", PH_RUN_ITERATION},
    {"cell::rebase(", PH_REBASE},
    {"cell::initialize_cell_properties(", PH_INIT_CELL_PROPS},
    {"cell_divider::add_intersection_points(", PH_DIV_ADD_INTERSECTION},
    {"cell_divider::divide_faces(", PH_DIV_DIVIDE_FACES},
    {"cell_divider::triangulate_division_interface(", PH_DIV_TRIANGULATE_IF},
    {"cell_divider::create_daughter_cells(", PH_DIV_CREATE_DAUGHTERS},
    {"poisson_sampling::compute_poisson_point_cloud(", PH_POISSON_CLOUD},
    {"initial_triangulation::triangulate_surface(", PH_TRIANGULATE_SURFACE},
    {"ball_pivoting_algorithm::find_seed_triangle(", PH_BPA_SEED},
    {"ball_pivoting_algorithm::fill_surface_holes(", PH_BPA_FILL_HOLES},
    {"epithelial_cell::special_polarization_update(", PH_SPECIAL_POLARIZATION},
    {"epithelial_cell::update_face_types(", PH_UPDATE_FACE_TYPES},
    {"simulation_initializer::triangulate_surface(", PH_INIT_TRIANGULATE},
    {"ball_pivoting_algorithm::run(", PH_BPA_RUN},
    {"poisson_sampling::poisson_disk_sampling(", PH_POISSON_DISK},
};

static const unsigned PT_SIZE = 1u << 16;
static std::atomic<uintptr_t> pt_key[PT_SIZE];
static std::atomic<int> pt_val[PT_SIZE];

static int resolve_phase(void* fn) {
    Dl_info info;
    int ph = 0;
    if (dladdr(fn, &info) && info.dli_sname) {
        int status = 0;
        char* dem = abi::__cxa_demangle(info.dli_sname, nullptr, nullptr, &status);
        if (status == 0 && dem) {
            for (const PhasePat& p : PATS)
                if (strncmp(dem, p.prefix, strlen(p.prefix)) == 0) { ph = p.ph; break; }
        }
        free(dem);
    }
    return ph;
}

static inline int lookup_phase(void* fn) {
    uintptr_t k = (uintptr_t)fn;
    unsigned h = (unsigned)((k >> 2) * 2654435761u) & (PT_SIZE - 1);
    for (;;) {
        uintptr_t cur = pt_key[h].load(std::memory_order_acquire);
        if (cur == k) { int v = pt_val[h].load(std::memory_order_acquire); if (v >= 0) return v; return resolve_phase(fn); }
        if (cur == 0) {
            int ph = resolve_phase(fn);
            uintptr_t expected = 0;
            pt_val[h].store(-1, std::memory_order_relaxed);
            if (pt_key[h].compare_exchange_strong(expected, k)) { pt_val[h].store(ph, std::memory_order_release); return ph; }
            if (expected == k) return ph;
            // slot taken by another key meanwhile: continue probing
        }
        h = (h + 1) & (PT_SIZE - 1);
    }
}

// ------------------------------------------------------------------------------------
// serialised scheduler
static inline void fnv(uint64_t& h, uint64_t v) { for (int i = 0; i < 8; i++) { h ^= (v >> (8 * i)) & 0xff; h *= 1099511628211ull; } }

static void fatal_exit(int code, const char* why) {
    // the harness prints the plan id before running; this line lets the orchestrator classify
    fprintf(stdout, "\n@@FATAL %s steps=%llu regions=%llu\n", why, (unsigned long long)G.st.steps, (unsigned long long)G.st.regions);
    fflush(stdout);
    _exit(code);
}

static bool runnable(const Member& m) { return m.state == M_NOT_STARTED || m.state == M_RUNNABLE; }

static int pick_forced(int exclude) {
    Region& r = G.reg;
    int best = -1;
    if (G.cfg.strategy == RW) {
        int cand[MAXT], nc = 0;
        for (int i = 0; i < r.n; i++) if (i != exclude && runnable(G.mem[i])) cand[nc++] = i;
        if (nc) best = cand[G.rng.below(nc)];
        return best;
    }
    for (int i = 0; i < r.n; i++) {
        if (i == exclude || !runnable(G.mem[i])) continue;
        if (best < 0 || G.mem[i].prio > G.mem[best].prio) best = i;
    }
    return best;
}

static void record_switch(int next, int cause) {
    G.st.switches++;
    fnv(G.st.sched_hash, G.st.regions); fnv(G.st.sched_hash, G.reg.step); fnv(G.st.sched_hash, (uint64_t)next);
#ifndef SIM_TSAN   // (operator new / memmove are intercepted even from this uninstrumented file: the trace would show up as a race of the simulator itself)
    if (G.tr.size() < 200000) G.tr.push_back({(uint32_t)G.st.regions, G.reg.step, next, cause});
#endif
}

// hand the CPU to member `next`; returns when this member is scheduled again
static void do_switch(int me, int next, int cause) {
    record_switch(next, cause);
    G.cur = next;
    gate_post(G.mem[next]);
    gate_wait(G.mem[me]);
}

enum Cause { C_START = 0, C_FUNC, C_CRIT, C_ATOMIC, C_LOCK, C_SECTION, C_BLOCKED, C_FINISH, C_UNLOCK };

// voluntary scheduling point of the running member
static void sched_point(int cause) {
    Region& r = G.reg;
    r.step++;
    int me = tl_member;
    if (r.n <= 1 || me < 0) return;
    int next = me;
    switch (G.cfg.strategy) {
        case RTC: case RTC_PERM: break;
        case RW:
            if (G.rng.coin(G.cfg.rw_p)) { int o = pick_forced(me); if (o >= 0) next = o; }
            break;
        case PCT: {
            bool change = false;
            for (uint64_t cp : r.change_points) if (cp == r.step) change = true;
            if (change) G.mem[me].prio = r.low_prio--;
            int o = pick_forced(-1);
            if (o >= 0) next = o;
            break; }
        case STARVE:
            if (me == G.cfg.starve % r.n) { int o = pick_forced(me); if (o >= 0) next = o; }
            break;
    }
    if (next != me) { G.st.preemptions++; do_switch(me, next, cause); }
}

// the running member cannot continue (waits for a critical section / lock)
static void block_on(const void* what) {
    int me = tl_member;
    G.mem[me].state = M_BLOCKED; G.mem[me].blocked_on = what;
    int next = pick_forced(me);
    if (next < 0) { G.st.deadlock = true; fatal_exit(78, "DEADLOCK"); }
    do_switch(me, next, C_BLOCKED);
}
static void wake_blocked(const void* what) {
    for (int i = 0; i < G.reg.n; i++)
        if (G.mem[i].state == M_BLOCKED && G.mem[i].blocked_on == what) { G.mem[i].state = M_RUNNABLE; G.mem[i].blocked_on = nullptr; }
}

static void finish_member(int me) {
    Region& r = G.reg;
    r.finished++;
    if (me == 0) {
        if (r.finished == r.n) { G.mem[0].state = M_FINISHED; return; }
        G.mem[0].state = M_AT_BARRIER;
        int next = pick_forced(0);
        if (next < 0) { G.st.deadlock = true; fatal_exit(78, "DEADLOCK"); }
        do_switch(0, next, C_FINISH);   // returns when everybody has finished
        G.mem[0].state = M_FINISHED;
        return;
    }
    G.mem[me].state = M_FINISHED;
    if (r.finished == r.n) {           // master waits at the barrier
        record_switch(0, C_FINISH); G.cur = 0; gate_post(G.mem[0]); return;
    }
    int next = pick_forced(me);
    if (next < 0) {
        if (G.mem[0].state == M_AT_BARRIER) { G.st.deadlock = true; fatal_exit(78, "DEADLOCK"); }
        G.st.deadlock = true; fatal_exit(78, "DEADLOCK");
    }
    record_switch(next, C_FINISH); G.cur = next; gate_post(G.mem[next]);
}

static void run_member_fn(int idx) {
    tl_member = idx;
    TSAN_ACQ(&tok_fork);                  // fork: what the master did before the region happens before the member's body
    try { G.reg.fn(G.reg.data); }
    catch (...) { G.st.escaped_exception = true; }
    TSAN_REL(&tok_join);                  // join: the member's body happens before what the master does after the region
    tl_member = -1;
}

static void* worker_main(void* arg) {
    Member* m = (Member*)arg;
    for (;;) {
        gate_wait(*m);
        if (G.cfg.free_running) {
            run_member_fn(m->idx);
            pthread_mutex_lock(&G.fr_mu); G.fr_pending--; pthread_cond_broadcast(&G.fr_cv); pthread_mutex_unlock(&G.fr_mu);
            continue;
        }
        if (m->state != M_NOT_STARTED) continue;   // defensive
        m->state = M_RUNNABLE;
        run_member_fn(m->idx);
        finish_member(m->idx);
    }
    return nullptr;
}

static void ensure_thread(int i) {
    Member& m = G.mem[i];
    if (m.thread_created) return;
    m.idx = i;
    sem_init(&m.sem, 0, 0);
    if (i > 0) {
        pthread_attr_t at; pthread_attr_init(&at); pthread_attr_setstacksize(&at, 16u << 20);
        if (pthread_create(&m.th, &at, worker_main, &m) != 0) { perror("pthread_create"); _exit(3); }
        pthread_attr_destroy(&at);
    }
    m.thread_created = true;
}

static uint64_t& estimate_for(const void* fn) {
    for (int i = 0; i < G.est_n; i++) if (G.est_key[i] == fn) return G.est_val[i];
    if (G.est_n < 64) { G.est_key[G.est_n] = fn; G.est_val[G.est_n] = 200; return G.est_val[G.est_n++]; }
    return G.est_val[0];
}

static void run_region(void (*fn)(void*), void* data, unsigned num_threads, unsigned sections, const LoopWS* pre = nullptr) {
    // nested region or region entered while instrumentation is quiet: team of one, inline
    if (tl_member >= 0 || tl_nest > 0 || G.reg.active) {
        unsigned sc = G.reg.sections_count, sn = G.reg.sections_next;
        bool nested_sections = sections > 0;
        if (nested_sections && tl_member < 0) { G.reg.sections_count = sections; G.reg.sections_next = 0; }
        LoopWS saved = tl_solo; if (pre) tl_solo = *pre;
        tl_nest++;
        try { fn(data); } catch (...) { tl_nest--; tl_solo = saved; throw; }
        tl_nest--; tl_solo = saved;
        if (nested_sections && tl_member < 0) { G.reg.sections_count = sc; G.reg.sections_next = sn; }
        return;
    }
    int n = G.cfg.team > 0 ? G.cfg.team : (num_threads ? (int)num_threads : G.default_team);
    if (num_threads == 1) n = 1;      // if(false) / num_threads(1): the code itself asks for a team of one
    if (!G.running) n = 1;
    if (n < 1) n = 1; if (n > MAXT) n = MAXT;
    Region& r = G.reg;
    r = Region();
    r.fn = fn; r.data = data; r.n = n; r.sections_count = sections; r.active = true;
    if (pre) { r.ws = *pre; r.ws_gen = 1; }
    for (int i = 0; i < n; i++) { G.mem[i].ws_seen = pre ? 1 : 0; G.mem[i].single_seen = 0; }
    G.st.regions++;
    if ((uint64_t)n > G.st.max_team) G.st.max_team = n;
    if (G.region_cb && G.running && tl_quiet == 0) { tl_quiet++; G.region_cb(true, 0, n); tl_quiet--; }

    if (n > 1) TSAN_REL(&tok_fork);
    if (G.cfg.free_running && n > 1) {
        for (int i = 0; i < n; i++) ensure_thread(i);
        pthread_mutex_lock(&G.fr_mu); G.fr_pending = n - 1; pthread_mutex_unlock(&G.fr_mu);
        for (int i = 1; i < n; i++) gate_post(G.mem[i]);
        run_member_fn(0);
        pthread_mutex_lock(&G.fr_mu); while (G.fr_pending > 0) pthread_cond_wait(&G.fr_cv, &G.fr_mu); pthread_mutex_unlock(&G.fr_mu);
    } else if (n == 1) {
        tl_member = 0; LoopWS saved = tl_solo; if (pre) tl_solo = *pre;
        try { fn(data); } catch (...) { tl_member = -1; r.active = false; tl_solo = saved; throw; }
        tl_member = -1; tl_solo = saved;
    } else {
        for (int i = 0; i < n; i++) { ensure_thread(i); G.mem[i].state = M_NOT_STARTED; G.mem[i].blocked_on = nullptr; }
        // priorities
        for (int i = 0; i < n; i++) G.mem[i].prio = -i;
        if (G.cfg.strategy == RTC_PERM || G.cfg.strategy == PCT) {
            int perm[MAXT]; for (int i = 0; i < n; i++) perm[i] = i;
            for (int i = n - 1; i > 0; i--) { int j = (int)G.rng.below(i + 1); std::swap(perm[i], perm[j]); }
            for (int i = 0; i < n; i++) G.mem[perm[i]].prio = n - i;
        }
        if (G.cfg.strategy == STARVE) G.mem[G.cfg.starve % n].prio = -100000;
        if (G.cfg.strategy == PCT) {
            uint64_t est = estimate_for((const void*)fn); if (est < 4) est = 4;
            for (int d = 0; d < G.cfg.pct_depth; d++) r.change_points.push_back(1 + G.rng.below(est));
        }
        tl_member = 0;
        G.cur = 0;
        int first = pick_forced(-1);
        if (first != 0) do_switch(0, first, C_START);
        G.mem[0].state = M_RUNNABLE;
        try { fn(data); } catch (...) { G.st.escaped_exception = true; }
        finish_member(0);
        tl_member = -1;
        estimate_for((const void*)fn) = r.step;
    }
    if (n > 1) TSAN_ACQ(&tok_join);
    int label = r.label; r.active = false;
    if (G.region_cb && G.running && tl_quiet == 0) { tl_quiet++; G.region_cb(false, label, n); tl_quiet--; }
}

// ------------------------------------------------------------------------------------
// run control
void begin_run(const RunConfig& cfg) {
    G.cfg = cfg;
    G.st = Stats();
    G.rng = Rng(cfg.seed ^ 0x5eedull);
    G.clk_rng = Rng(cfg.seed ^ 0xc10cull);
    G.tr.clear();
    G.clock_val = cfg.clock_base;
    G.rand_state = (unsigned long)(cfg.seed * 2654435761u + 12345u);
    for (auto& f : G.faults) f.fired = false;
    G.est_n = 0;
    G.running = true;
}
Stats end_run() { G.running = false; return G.st; }
Stats& stats() { return G.st; }
bool in_run() { return G.running; }
const std::vector<SwitchEv>& trace() { return G.tr; }
void clear_faults() { G.faults.clear(); }
void add_fault(const ExcFault& f) { G.faults.push_back(f); }
const std::vector<ExcFault>& faults() { return G.faults; }
void set_phase_cb(PhaseCb cb) { G.phase_cb = std::move(cb); }
void set_region_cb(RegionCb cb) { G.region_cb = std::move(cb); }
void clock_jump(int64_t d) { G.clock_val += d; if (d < 0) G.st.clock_backwards++; }
int64_t clock_now_raw() { return G.clock_val; }

static void throw_fault(int t) {
    switch (t) {
        case EX_DIVISION: throw division_exception("simulated fault: division stage failed");
        case EX_BPA: throw bpa_exception("simulated fault: ball pivoting failed");
        case EX_MESH_INTEGRITY: throw mesh_integrity_exception("simulated fault: mesh integrity");
        case EX_MESH_WRITER: throw mesh_writer_exception("simulated fault: writer failed");
        case EX_INIT_TRI: throw initial_triangulation_exception("simulated fault: initial triangulation failed");
        default: throw std::runtime_error("simulated fault");
    }
}

void throw_fault_for_test(int t) { throw_fault(t); }

} // namespace sim

using namespace sim;

// ------------------------------------------------------------------------------------
// instrumentation callbacks (every entry/exit of a repository function)
extern "C" {
__attribute__((no_instrument_function)) void __cyg_profile_func_enter(void* fn, void* site) {
    if (!G.running || tl_quiet > 0 || tl_in_hook > 0) return;
    tl_in_hook++;
    int ph = lookup_phase(fn);
    bool serial = !G.cfg.free_running;
    bool in_region = tl_member >= 0 && G.reg.n > 1;
    int fire = -1;
    if (serial || tl_member < 0) {
        G.st.steps++;
        if (G.cfg.step_budget && G.st.steps > G.cfg.step_budget) fatal_exit(79, "STEP_BUDGET");
    }
    if (ph) {
        if (serial || !in_region) {
            G.st.phase_calls[ph]++;
            if (G.reg.active && G.reg.label == 0) G.reg.label = ph;
            for (auto& f : G.faults)
                if (!f.fired && f.phase == ph && f.call_index == G.st.phase_calls[ph]) { f.fired = true; G.st.faults_fired++; fire = f.exc_type; }
        }
        if (G.phase_cb && ((serial && kCallbacksInRegion) || !in_region)) { tl_quiet++; try { G.phase_cb(ph, true, in_region); } catch (...) { tl_quiet--; tl_in_hook--; throw; } tl_quiet--; }
    }
    if (in_region && tl_nest == 0) {
        if (serial) sched_point(C_FUNC);
        else if ((((uintptr_t)fn >> 4) + G.st.regions) % 7 == 0) sched_yield();
    }
    tl_in_hook--;
    if (fire >= 0) throw_fault(fire);
}
__attribute__((no_instrument_function)) void __cyg_profile_func_exit(void* fn, void* site) {
    if (!G.running || tl_quiet > 0 || tl_in_hook > 0) return;
    if (!G.phase_cb) return;
    int ph = lookup_phase(fn);
    if (!ph) return;
    bool in_region = tl_member >= 0 && G.reg.n > 1;
    if ((G.cfg.free_running || !kCallbacksInRegion) && in_region) return;
    tl_in_hook++; tl_quiet++;
    try { G.phase_cb(ph, false, in_region); } catch (...) {}
    tl_quiet--; tl_in_hook--;
}

// ------------------------------------------------------------------------------------
// GOMP / omp entry points
void GOMP_parallel(void (*fn)(void*), void* data, unsigned num_threads, unsigned flags) { run_region(fn, data, num_threads, 0); }
void GOMP_parallel_sections(void (*fn)(void*), void* data, unsigned num_threads, unsigned count, unsigned flags) { run_region(fn, data, num_threads, count); }

// a sections construct inside an existing parallel region (not the combined 'parallel sections')
static bool in_team(); static void team_barrier();
static thread_local bool tl_solo_sections = false; static thread_local unsigned tl_sec_count = 0, tl_sec_next = 0;
unsigned GOMP_sections_next(void);
unsigned GOMP_sections_start(unsigned count) {
    if (!in_team()) { tl_solo_sections = true; tl_sec_count = count; tl_sec_next = 0; return GOMP_sections_next(); }
    Region& r = G.reg; Member& m = G.mem[tl_member];
    if (G.cfg.free_running) pthread_mutex_lock(&G.fr_mu);
    m.ws_seen++; if (m.ws_seen > r.ws_gen) { r.sections_count = count; r.sections_next = 0; r.ws_gen = m.ws_seen; }
    if (G.cfg.free_running) pthread_mutex_unlock(&G.fr_mu);
    return GOMP_sections_next();
}
unsigned GOMP_sections_next(void) {
    Region& r = G.reg;
    if (tl_solo_sections && !(tl_member >= 0 && r.n > 1 && tl_nest == 0)) return tl_sec_next < tl_sec_count ? ++tl_sec_next : 0;
    if (tl_member >= 0 && r.n > 1 && tl_nest == 0) {
        if (G.cfg.free_running) {
            pthread_mutex_lock(&G.fr_mu);
            unsigned v = (r.sections_next < r.sections_count) ? ++r.sections_next : 0;
            pthread_mutex_unlock(&G.fr_mu);
            return v;
        }
        sched_point(C_SECTION);
    }
    if (r.sections_next < r.sections_count) return ++r.sections_next;
    return 0;
}
void GOMP_sections_end_nowait(void) { tl_solo_sections = false; }
void GOMP_sections_end(void) { tl_solo_sections = false; team_barrier(); }

// ---- explicit barrier (also the implicit one at the end of a work-sharing loop without nowait)
static char tok_bar;
static bool in_team() { return tl_member >= 0 && G.reg.n > 1 && tl_nest == 0; }
static void team_barrier() {
    if (!in_team()) return;
    Region& r = G.reg;
    if (G.cfg.free_running) {
        pthread_mutex_lock(&G.fr_mu); uint64_t gen = r.bar_gen;
        if (++r.bar_count == r.n) { r.bar_count = 0; r.bar_gen++; pthread_cond_broadcast(&G.fr_cv); }
        else while (r.bar_gen == gen) pthread_cond_wait(&G.fr_cv, &G.fr_mu);
        pthread_mutex_unlock(&G.fr_mu); return;
    }
    TSAN_REL(&tok_bar);
    sched_point(C_SECTION);
    uint64_t gen = r.bar_gen;
    if (++r.bar_count == r.n) { r.bar_count = 0; r.bar_gen++; wake_blocked(&r.bar_gen); }
    else while (r.bar_gen == gen) block_on(&r.bar_gen);
    TSAN_ACQ(&tok_bar);
}
void GOMP_barrier(void) { team_barrier(); }

// ---- work-sharing loops with schedule(dynamic | guided | runtime), long and unsigned long long flavours
static LoopWS make_ws(long start, long end, long incr, long chunk, bool guided) {
    LoopWS w; w.is_ull = false; w.s_start = start; w.s_incr = incr; w.guided = guided; w.chunk = chunk > 0 ? (uint64_t)chunk : 1;
    if (incr > 0) w.n_iter = end > start ? ((uint64_t)(end - start) + (uint64_t)incr - 1) / (uint64_t)incr : 0;
    else if (incr < 0) w.n_iter = start > end ? ((uint64_t)(start - end) + (uint64_t)(-incr) - 1) / (uint64_t)(-incr) : 0;
    return w;
}
static LoopWS make_ws_ull(bool up, unsigned long long start, unsigned long long end, unsigned long long incr, unsigned long long chunk, bool guided) {
    LoopWS w; w.is_ull = true; w.up = up; w.u_start = start; w.u_incr = incr; w.guided = guided; w.chunk = chunk > 0 ? chunk : 1;
    if (up) w.n_iter = (end > start && incr) ? (end - start + incr - 1) / incr : 0;
    else { unsigned long long d = (unsigned long long)(-(long long)incr); w.n_iter = (start > end && d) ? (start - end + d - 1) / d : 0; }
    return w;
}
static bool ws_grab(LoopWS& w, bool team, uint64_t& i0, uint64_t& i1) {
    if (team) { if (G.cfg.free_running) pthread_mutex_lock(&G.fr_mu); else sched_point(C_SECTION); }
    bool ok = w.next < w.n_iter;
    if (ok) { uint64_t c = w.chunk; if (w.guided && team) { uint64_t g = (w.n_iter - w.next) / (uint64_t)(2 * G.reg.n); if (g > c) c = g; } i0 = w.next; i1 = std::min(w.n_iter, i0 + c); w.next = i1; }
    if (team && G.cfg.free_running) pthread_mutex_unlock(&G.fr_mu);
    return ok;
}
static LoopWS& ws_begin(const LoopWS& init, bool& team) {
    team = in_team();
    if (!team) { tl_solo = init; return tl_solo; }
    Region& r = G.reg; Member& m = G.mem[tl_member];
    if (G.cfg.free_running) pthread_mutex_lock(&G.fr_mu);
    m.ws_seen++; if (m.ws_seen > r.ws_gen) { r.ws = init; r.ws_gen = m.ws_seen; }
    if (G.cfg.free_running) pthread_mutex_unlock(&G.fr_mu);
    return r.ws;
}
static LoopWS& ws_current(bool& team) { team = in_team(); return team ? G.reg.ws : tl_solo; }
static bool ws_next_long(LoopWS& w, bool team, long* a, long* b) { uint64_t i0, i1; if (!ws_grab(w, team, i0, i1)) return false; *a = w.s_start + (long)i0 * w.s_incr; *b = w.s_start + (long)i1 * w.s_incr; return true; }
static bool ws_next_ull(LoopWS& w, bool team, unsigned long long* a, unsigned long long* b) { uint64_t i0, i1; if (!ws_grab(w, team, i0, i1)) return false; *a = w.u_start + i0 * w.u_incr; *b = w.u_start + i1 * w.u_incr; return true; }

#define SIM_LOOP_LONG(NAME, GUIDED, CHUNKEXPR) \
    bool GOMP_loop_##NAME##_start(long start, long end, long incr, long chunk, long* istart, long* iend) { bool team; LoopWS& w = ws_begin(make_ws(start, end, incr, CHUNKEXPR, GUIDED), team); return ws_next_long(w, team, istart, iend); } \
    bool GOMP_loop_##NAME##_next(long* istart, long* iend) { bool team; LoopWS& w = ws_current(team); return ws_next_long(w, team, istart, iend); } \
    void GOMP_parallel_loop_##NAME(void (*fn)(void*), void* data, unsigned num_threads, long start, long end, long incr, long chunk, unsigned flags) { LoopWS w = make_ws(start, end, incr, CHUNKEXPR, GUIDED); run_region(fn, data, num_threads, 0, &w); }
#define SIM_LOOP_ULL(NAME, GUIDED, CHUNKEXPR) \
    bool GOMP_loop_ull_##NAME##_start(bool up, unsigned long long start, unsigned long long end, unsigned long long incr, unsigned long long chunk, unsigned long long* istart, unsigned long long* iend) { bool team; LoopWS& w = ws_begin(make_ws_ull(up, start, end, incr, CHUNKEXPR, GUIDED), team); return ws_next_ull(w, team, istart, iend); } \
    bool GOMP_loop_ull_##NAME##_next(unsigned long long* istart, unsigned long long* iend) { bool team; LoopWS& w = ws_current(team); return ws_next_ull(w, team, istart, iend); }
SIM_LOOP_LONG(dynamic, false, chunk) SIM_LOOP_LONG(nonmonotonic_dynamic, false, chunk) SIM_LOOP_LONG(guided, true, chunk) SIM_LOOP_LONG(nonmonotonic_guided, true, chunk)
SIM_LOOP_ULL(dynamic, false, chunk) SIM_LOOP_ULL(nonmonotonic_dynamic, false, chunk) SIM_LOOP_ULL(guided, true, chunk) SIM_LOOP_ULL(nonmonotonic_guided, true, chunk)
// schedule(runtime): handed out one iteration at a time
#define SIM_LOOP_RT(NAME) \
    bool GOMP_loop_##NAME##_start(long start, long end, long incr, long* istart, long* iend) { bool team; LoopWS& w = ws_begin(make_ws(start, end, incr, 1, false), team); return ws_next_long(w, team, istart, iend); } \
    bool GOMP_loop_##NAME##_next(long* istart, long* iend) { bool team; LoopWS& w = ws_current(team); return ws_next_long(w, team, istart, iend); } \
    void GOMP_parallel_loop_##NAME(void (*fn)(void*), void* data, unsigned num_threads, long start, long end, long incr, unsigned flags) { LoopWS w = make_ws(start, end, incr, 1, false); run_region(fn, data, num_threads, 0, &w); } \
    bool GOMP_loop_ull_##NAME##_start(bool up, unsigned long long start, unsigned long long end, unsigned long long incr, unsigned long long* istart, unsigned long long* iend) { bool team; LoopWS& w = ws_begin(make_ws_ull(up, start, end, incr, 1, false), team); return ws_next_ull(w, team, istart, iend); } \
    bool GOMP_loop_ull_##NAME##_next(unsigned long long* istart, unsigned long long* iend) { bool team; LoopWS& w = ws_current(team); return ws_next_ull(w, team, istart, iend); }
SIM_LOOP_RT(runtime) SIM_LOOP_RT(nonmonotonic_runtime) SIM_LOOP_RT(maybe_nonmonotonic_runtime)
void GOMP_loop_end(void) { team_barrier(); }
void GOMP_loop_end_nowait(void) {}
bool GOMP_loop_end_cancel(void) { team_barrier(); return false; }

// ---- single
bool GOMP_single_start(void) {
    if (!in_team()) return true;
    Region& r = G.reg; Member& m = G.mem[tl_member];
    if (G.cfg.free_running) pthread_mutex_lock(&G.fr_mu); else sched_point(C_SECTION);
    m.single_seen++; bool mine = m.single_seen > r.single_gen; if (mine) r.single_gen = m.single_seen;
    if (G.cfg.free_running) pthread_mutex_unlock(&G.fr_mu);
    return mine;
}

static void serial_acquire(int* owner, const void* key, int cause, uint64_t* blocked_counter) {
    sched_point(cause);
    while (*owner >= 0 && *owner != tl_member) { (*blocked_counter)++; block_on(key); }
    *owner = tl_member;
}
void GOMP_critical_start(void) {
    if (tl_member < 0 || G.reg.n <= 1 || tl_nest > 0) return;
    if (G.cfg.free_running) { pthread_mutex_lock(&G.fr_crit); return; }
    serial_acquire(&G.reg.crit_owner, &G.reg.crit_owner, C_CRIT, &G.st.blocked_crit);
    TSAN_ACQ(&tok_crit);
}
void GOMP_critical_end(void) {
    if (tl_member < 0 || G.reg.n <= 1 || tl_nest > 0) return;
    if (G.cfg.free_running) { pthread_mutex_unlock(&G.fr_crit); return; }
    TSAN_REL(&tok_crit);
    G.reg.crit_owner = -1; wake_blocked(&G.reg.crit_owner); sched_point(C_UNLOCK);
}

// named critical sections: one lock per name (the address of the compiler-generated lock variable)
void GOMP_critical_name_start(void** pptr) {
    if (tl_member < 0 || G.reg.n <= 1 || tl_nest > 0) return;
    if (G.cfg.free_running) { pthread_mutex_lock(&G.fr_named); return; }      // (free-running: all names share one mutex)
    Region& r = G.reg; int slot = -1; for (int i = 0; i < 8; i++) if (r.named_key[i] == (const void*)pptr) slot = i;
    if (slot < 0) for (int i = 0; i < 8; i++) if (!r.named_key[i]) { r.named_key[i] = (const void*)pptr; slot = i; break; }
    if (slot < 0) slot = 0;
    serial_acquire(&r.named_owner[slot], &r.named_owner[slot], C_CRIT, &G.st.blocked_crit);
    TSAN_ACQ((void*)pptr);
}
void GOMP_critical_name_end(void** pptr) {
    if (tl_member < 0 || G.reg.n <= 1 || tl_nest > 0) return;
    if (G.cfg.free_running) { pthread_mutex_unlock(&G.fr_named); return; }
    Region& r = G.reg; int slot = 0; for (int i = 0; i < 8; i++) if (r.named_key[i] == (const void*)pptr) slot = i;
    TSAN_REL((void*)pptr);
    r.named_owner[slot] = -1; wake_blocked(&r.named_owner[slot]); sched_point(C_UNLOCK);
}
void GOMP_atomic_start(void) {
    if (tl_member < 0 || G.reg.n <= 1 || tl_nest > 0) return;
    if (G.cfg.free_running) { pthread_mutex_lock(&G.fr_atomic); return; }
    serial_acquire(&G.reg.atomic_owner, &G.reg.atomic_owner, C_ATOMIC, &G.st.blocked_crit);
    TSAN_ACQ(&tok_atomic);
}
void GOMP_atomic_end(void) {
    if (tl_member < 0 || G.reg.n <= 1 || tl_nest > 0) return;
    if (G.cfg.free_running) { pthread_mutex_unlock(&G.fr_atomic); return; }
    TSAN_REL(&tok_atomic);
    G.reg.atomic_owner = -1; wake_blocked(&G.reg.atomic_owner);
}

int omp_get_thread_num(void) { return (tl_nest > 0 || tl_member < 0) ? 0 : tl_member; }
int omp_get_num_threads(void) { return (tl_nest > 0 || tl_member < 0) ? 1 : G.reg.n; }
int omp_get_max_threads(void) { return G.cfg.team > 0 ? G.cfg.team : G.default_team; }
int omp_get_num_procs(void) { return 16; }
void omp_set_num_threads(int n) { if (n > 0) G.default_team = n > MAXT ? MAXT : n; }
int omp_in_parallel(void) { return tl_member >= 0 && G.reg.n > 1; }

// omp_lock_t is 4 bytes: 0 = free, k+1 = held by member k (serialised); atomic flag (free-running)
void omp_init_lock(void* l) { *(volatile int*)l = 0; }
void omp_destroy_lock(void* l) {}
void omp_set_lock(void* l) {
    int* w = (int*)l;
    if (G.cfg.free_running && G.running) {
        for (;;) { int exp = 0; if (__atomic_compare_exchange_n(w, &exp, 1, false, __ATOMIC_ACQUIRE, __ATOMIC_RELAXED)) { TSAN_ACQ(l); return; } if (exp != 1) { __atomic_store_n(w, 1, __ATOMIC_RELAXED); TSAN_ACQ(l); return; } sched_yield(); }
    }
    if (tl_member < 0 || G.reg.n <= 1 || tl_nest > 0) { if (*w != 0 && (*w < 0 || *w > MAXT)) G.st.lock_garbage++; *w = 1; return; }
    sched_point(C_LOCK);
    if (*w < 0 || *w > G.reg.n) { G.st.lock_garbage++; *w = 0; }
    while (*w != 0 && *w != tl_member + 1) { G.st.blocked_lock++; block_on(l); if (*w < 0 || *w > G.reg.n) { G.st.lock_garbage++; *w = 0; } }
    *w = tl_member + 1;
    TSAN_ACQ(l);
}
void omp_unset_lock(void* l) {
    int* w = (int*)l;
    if (G.cfg.free_running && G.running) { TSAN_REL(l); __atomic_store_n(w, 0, __ATOMIC_RELEASE); return; }
    if (!(tl_member < 0 || G.reg.n <= 1 || tl_nest > 0)) TSAN_REL(l);
    *w = 0;
    if (tl_member < 0 || G.reg.n <= 1 || tl_nest > 0) return;
    wake_blocked(l);
    sched_point(C_UNLOCK);
}

// ------------------------------------------------------------------------------------
// C RNG
int rand(void) { G.st.rand_calls++; G.rand_state = G.rand_state * 1103515245ul + 12345ul; return (int)((G.rand_state >> 16) & 0x7fffffff); }
void srand(unsigned s) { G.rand_state = s; }

// sanitizer defaults: classify sanitizer hits by exit code, no leak reports
__attribute__((used, no_instrument_function)) const char* __asan_default_options() { return "exitcode=77:detect_leaks=0:abort_on_error=0:handle_abort=1:allocator_may_return_null=1:max_malloc_fill_size=268435456"; }
__attribute__((used, no_instrument_function)) const char* __ubsan_default_options() { return "print_stacktrace=1:halt_on_error=1:exitcode=77"; }
__attribute__((used, no_instrument_function)) const char* __tsan_default_options() { return "exitcode=0:halt_on_error=0:report_signal_unsafe=0:history_size=6"; }
} // extern "C"

// ------------------------------------------------------------------------------------
// simulated wall clock: the only clock the repository reads
namespace std { namespace chrono { inline namespace _V2 {
system_clock::time_point system_clock::now() noexcept {
    G.st.clock_calls++;
    bool in_region = tl_member >= 0 && G.reg.n > 1;
    switch (G.cfg.clock_policy) {
        case CLK_FROZEN_REGION: if (!in_region && tl_nest == 0 && !(tl_member >= 0)) G.clock_val += 1000; break;
        case CLK_TICKING: G.clock_val += 1000; break;
        case CLK_JUMPY: {
            G.clock_val += 1000;
            if (G.clk_rng.coin(0.15)) {
                int k = G.clk_rng.range(3, 15); int64_t d = 1; for (int i = 0; i < k; i++) d *= 10;
                if (G.clk_rng.coin(0.5)) { d = -d; G.st.clock_backwards++; }
                G.clock_val += d;
            }
            break; }
    }
    return time_point(duration(G.clock_val));
}
}}}
