// simrun: in-process worker. Generates plans from seeds (or reads one), runs them under
// the simulator, confirms / minimises violations, prints one JSON line per plan.
#include "harness/plan.hpp"
#include <unistd.h>
#include <sys/stat.h>
#include <fstream>
#include <iostream>
#include <chrono>
#include <exception>

namespace hz {
std::map<std::string, Workload>& registry() { static std::map<std::string, Workload> r; return r; }
std::string g_scratch;   // per-process private scratch directory (never outside $TMPDIR|/dev/shm)
}
using namespace hz;

static std::string jstats(const RunResult& r) {
    std::ostringstream o;
    o << "\"steps\":" << r.st.steps << ",\"regions\":" << r.st.regions << ",\"switches\":" << r.st.switches << ",\"preemptions\":" << r.st.preemptions
      << ",\"blocked_crit\":" << r.st.blocked_crit << ",\"blocked_lock\":" << r.st.blocked_lock << ",\"faults_fired\":" << r.st.faults_fired
      << ",\"clock_calls\":" << r.st.clock_calls << ",\"clock_backwards\":" << r.st.clock_backwards << ",\"rand_calls\":" << r.st.rand_calls
      << ",\"lock_garbage\":" << r.st.lock_garbage << ",\"max_team\":" << r.st.max_team << ",\"sched_hash\":\"" << std::hex << r.st.sched_hash << std::dec << "\""
      << ",\"escaped_exception\":" << (r.st.escaped_exception ? "true" : "false");
    return o.str();
}

static std::string jresult(const Plan& pl, const RunResult& r, const Plan* minimized, int reruns, bool reproduced, bool dual_ok) {
    std::ostringstream o;
    o << "{\"seed\":" << pl.seed << ",\"workload\":\"" << pl.workload << "\",\"ok\":" << (r.viol.empty() ? "true" : "false")
      << ",\"fingerprint\":\"" << std::hex << r.fingerprint << std::dec << "\",\"nontrivial\":" << (r.nontrivial ? "true" : "false")
      << ",\"iters\":" << r.sim_iterations << ",\"sim_time\":" << r.sim_time << ",\"nops\":" << pl.ops.size() << ",\"dual_ok\":" << (dual_ok ? "true" : "false")
      << ",\"brief\":\"" << jesc(pl.brief()) << "\"," << jstats(r) << ",\"probes\":{";
    bool first = true; for (auto& kv : r.probes.c) { o << (first ? "" : ",") << "\"" << jesc(kv.first) << "\":" << kv.second; first = false; }
    o << "},\"faults\":{"; first = true; for (auto& kv : r.faults_fired) { o << (first ? "" : ",") << "\"" << jesc(kv.first) << "\":" << kv.second; first = false; }
    o << "},\"violations\":[";
    for (size_t i = 0; i < r.viol.size(); i++) o << (i ? "," : "") << "{\"prop\":\"" << r.viol[i].prop << "\",\"clause\":\"" << jesc(r.viol[i].clause) << "\",\"detail\":\"" << jesc(r.viol[i].detail) << "\"}";
    o << "]";
    if (!r.viol.empty()) {
        o << ",\"reproduced\":" << (reproduced ? "true" : "false") << ",\"reruns\":" << reruns;
        o << ",\"plan\":\"" << jesc(pl.to_text()) << "\"";
        if (minimized) o << ",\"min_plan\":\"" << jesc(minimized->to_text()) << "\",\"min_nops\":" << minimized->ops.size();
    }
    o << "}";
    return o.str();
}

static bool same_class(const RunResult& r, const Violation& v) { for (auto& x : r.viol) if (x.prop == v.prop && x.clause == v.clause) return true; return false; }

// greedy ddmin over ops, then workload-specific simplifications; one violation class only
static Plan minimise(const Workload& w, const Plan& orig, const Violation& target, int& reruns, int budget) {
    Plan best = orig;
    auto still = [&](const Plan& cand) { if (reruns >= budget) return false; reruns++; RunResult r = w.run(cand); return same_class(r, target); };
    size_t chunk = std::max<size_t>(1, best.ops.size() / 2);
    while (chunk >= 1 && !best.ops.empty()) {
        bool progress = false;
        for (size_t start = 0; start < best.ops.size();) {
            Plan cand = best; size_t end = std::min(best.ops.size(), start + chunk);
            cand.ops.erase(cand.ops.begin() + start, cand.ops.begin() + end);
            if (still(cand)) { best = cand; progress = true; } else start += chunk;
            if (reruns >= budget) break;
        }
        if (reruns >= budget) break;
        if (chunk == 1 && !progress) break;
        if (!progress) chunk = chunk / 2; else chunk = std::min(chunk, std::max<size_t>(1, best.ops.size() / 2));
        if (chunk == 0) break;
    }
    if (w.shrink) {
        bool again = true; int rounds = 0;
        while (again && rounds++ < 6 && reruns < budget) {
            again = false;
            for (const Plan& cand : w.shrink(best)) { if (still(cand)) { best = cand; again = true; break; } if (reruns >= budget) break; }
        }
    }
    return best;
}

int main(int argc, char** argv) {
    std::vector<std::pair<std::string, double>> overrides;
    std::string want_prop;
    std::string workload, tier = "quick", focus, planfile; uint64_t s0 = 1, s1 = 1; bool do_min = true, print_plan = false; double dual_frac = 0.0; int min_budget = 150;
    for (int i = 1; i < argc; i++) {
        std::string a = argv[i];
        auto next = [&]() { return std::string(i + 1 < argc ? argv[++i] : ""); };
        if (a == "--workload") workload = next();
        else if (a == "--tier") tier = next();
        else if (a == "--focus") focus = next();
        else if (a == "--plan") planfile = next();
        else if (a == "--seeds") { std::string s = next(); size_t c = s.find(':'); s0 = strtoull(s.c_str(), nullptr, 10); s1 = c == std::string::npos ? s0 : strtoull(s.c_str() + c + 1, nullptr, 10); }
        else if (a == "--no-minimize") do_min = false;
        else if (a == "--print-plan") print_plan = true;
        else if (a == "--dual") dual_frac = atof(next().c_str());
        else if (a == "--min-budget") min_budget = atoi(next().c_str());
        else if (a == "--prop") want_prop = next();     // minimise / judge reproduction for the first violation of this property (a run may violate several)
        else if (a == "--set") { std::string kv = next(); size_t e = kv.find('='); if (e != std::string::npos) overrides.push_back({kv.substr(0, e), atof(kv.c_str() + e + 1)}); }   // overrides a parameter of every generated plan
        else if (a == "--list") { for (auto& kv : registry()) printf("%s\n", kv.first.c_str()); return 0; }
    }
    setvbuf(stdout, nullptr, _IOLBF, 0);
    // private scratch directory
    const char* td = getenv("TMPDIR"); std::string base = td && *td ? td : "/dev/shm";
    g_scratch = base + "/simrun_" + std::to_string(getpid()); mkdir(g_scratch.c_str(), 0700);
    struct Cleaner { ~Cleaner() { std::string c = "rm -rf '" + g_scratch + "'"; if (system(c.c_str())) {} } } cleaner;
    std::set_terminate([] {
        std::string w = "(no active exception)";
        try { auto e = std::current_exception(); if (e) std::rethrow_exception(e); } catch (std::exception& ex) { w = ex.what(); } catch (...) { w = "(not a std::exception)"; }
        printf("\n@@FATAL TERMINATE what=%s\n", w.c_str()); fflush(stdout); _exit(76); });

    Plan fileplan; bool have_file = false;
    if (!planfile.empty()) { std::ifstream in(planfile); std::stringstream ss; ss << in.rdbuf(); if (!Plan::from_text(ss.str(), fileplan)) { fprintf(stderr, "bad plan file\n"); return 2; } have_file = true; workload = fileplan.workload; s0 = s1 = fileplan.seed; }
    auto it = registry().find(workload);
    if (it == registry().end()) { fprintf(stderr, "unknown workload '%s'\n", workload.c_str()); return 2; }
    const Workload& w = it->second;
    int any_viol = 0;
    for (uint64_t seed = s0; seed <= s1; seed++) {
        Plan pl = have_file ? fileplan : w.gen(seed, tier, focus);
        if (!have_file) for (auto& kv : overrides) pl.p[kv.first] = kv.second;
        if (print_plan) { printf("%s", pl.to_text().c_str()); continue; }
        printf("@@BEGIN %llu\n", (unsigned long long)seed); fflush(stdout);
        RunResult r = w.run(pl);
        bool dual_ok = true;
        // determinism gate (sampled): the same plan again must give the same event log
        if (r.viol.empty() && dual_frac > 0 && ((seed * 2654435761ull) % 1000) < (uint64_t)(dual_frac * 1000)) { RunResult r2 = w.run(pl); dual_ok = (r2.fingerprint == r.fingerprint) && r2.viol.empty(); }
        if (r.viol.empty()) { printf("@@RESULT %s\n", jresult(pl, r, nullptr, 0, true, dual_ok).c_str()); continue; }
        any_viol = 1;
        size_t ti = 0; if (!want_prop.empty()) for (size_t q = 0; q < r.viol.size(); q++) if (r.viol[q].prop == want_prop) { ti = q; break; }
        if (ti != 0) std::swap(r.viol[0], r.viol[ti]);      // the target class comes first in the result
        int reruns = 1; RunResult r2 = w.run(pl);
        bool reproduced = same_class(r2, r.viol[0]) && r2.fingerprint == r.fingerprint;
        Plan minp = pl;
        if (reproduced && do_min && !have_file) { minp = minimise(w, pl, r.viol[0], reruns, min_budget); }
        printf("@@RESULT %s\n", jresult(pl, r, &minp, reruns, reproduced, true).c_str());
    }
    fflush(stdout);
    return any_viol ? 1 : 0;
}
