#!/usr/bin/env python3
"""Prints the source directories of <repo> whose library the project's own CMake files compile with -fopenmp
(the target links OpenMP::OpenMP_CXX itself or, transitively, a library that links it PUBLIC). Everything else
is compiled by CMake WITHOUT -fopenmp, i.e. every `#pragma omp` in it is ignored in the shipped build. The
simulator's "mirror" variants compile each directory the same way."""
import os, re, sys
repo = sys.argv[1] if len(sys.argv) > 1 else "/repo"
libs = {}
def parse(path):
    try: txt = open(path, errors="replace").read()
    except OSError: return None
    txt = re.sub(r"#[^\n]*", "", txt)
    links = set()
    for m in re.finditer(r"target_link_libraries\s*\(([^)]*)\)", txt, re.S):
        toks = m.group(1).split()
        links.update(t for t in toks[1:] if t not in ("PUBLIC", "PRIVATE", "INTERFACE"))
    return links
src = os.path.join(repo, "src")
top = parse(os.path.join(src, "CMakeLists.txt"))
if top is not None: libs["src"] = top
for d in sorted(os.listdir(src)):
    l = parse(os.path.join(src, d, "CMakeLists.txt"))
    if l is not None: libs[d] = l
omp = {k for k, v in libs.items() if "OpenMP::OpenMP_CXX" in v}
changed = True
while changed:
    changed = False
    for k, v in libs.items():
        if k not in omp and v & omp: omp.add(k); changed = True
print(" ".join(sorted(omp)))
