// W14: translation differential (C14). The same plan (same seed, team, schedule, frozen clock) is
// executed on the tissue as generated and on the tissue translated by t; after every iteration
// the translated run must be the reference run moved by t. A mismatch counts only if a second,
// independently drawn translation of the same class mismatches too (threshold flips).
#include "harness/tissue.hpp"

using namespace hz;

namespace {

struct CellRec { unsigned id; int type; std::vector<V3> force; std::vector<V3> pos; std::vector<char> used; std::vector<std::array<unsigned, 3>> tri; std::vector<char> fused; double volume, pressure, target; std::vector<V3> nn; std::vector<double> curv, sqd; std::vector<long> cpl; };
typedef std::vector<CellRec> PopRec;

static PopRec record(const std::vector<cell_ptr>& L) {
    PopRec r; for (auto& c : L) { CellRec q; q.id = c->get_id(); q.type = c->get_cell_type_id(); CellView v = view_of(*c); q.pos = v.pos; for (auto& n : cell_tester::nodes(*c)) q.force.push_back(V3(n.force())); q.used = v.nused; q.tri = v.tri; q.fused = v.fused; q.volume = c->get_volume(); q.pressure = c->get_pressure(); q.target = c->get_target_volume();
#if CONTACT_MODEL_INDEX == 1
        if (getenv("W14_TRACE")) for (auto& n : cell_tester::nodes(*c)) { q.nn.push_back(V3(cell_tester::nnormal(n))); q.curv.push_back(cell_tester::curvature(n)); q.sqd.push_back(cell_tester::sqd(n)); auto& cp = cell_tester::coupled(n); q.cpl.push_back(cp ? (long)cp->first * 100000 + cp->second : -1); }
#endif
        r.push_back(q); }
    return r;
}

static std::vector<std::pair<std::string, PopRec>>* g_trace = nullptr;
static std::vector<PopRec> execute(const Plan& pl, const V3& shift, RunResult& res, bool count) {
    std::vector<PopRec> out;
    sim::RunConfig cfg = config_from(pl); cfg.step_budget = (uint64_t)(8e8 * std::max(1.0, pl.geti("ncells", 1) * pl.geti("iters", 10) / 60.0)); cfg.clock_policy = sim::CLK_FROZEN_REGION;
    sim::clear_faults(); sim::begin_run(cfg);
    try {
        Tissue T = build_tissue(pl, shift);
        auto S = std::make_unique<sim_solver>(T.params, T.cells, pl.geti("team", 1), true, false);
        int K = pl.geti("iters", 10);
        sim_solver* SP = S.get();
        if (g_trace) { sim::set_phase_cb([SP](int ph, bool en, bool reg) { if (!reg) g_trace->push_back({std::string(sim::phase_name(ph)) + (en ? ":enter" : ":exit"), record(SP->cells())}); });
                       sim::set_region_cb([SP](bool st, int label, int team) { g_trace->push_back({std::string("region:") + (st ? "start" : "end:") + sim::phase_name(label), record(SP->cells())}); }); }
        // after a division the two daughters share their interface exactly (coincident nodes): contact decisions
        // between them are ties resolved by rounding noise, so trajectories are compared up to and including
        // the population right after the first division, not beyond
        bool divided = false; size_t n_before = 0;
        if (!g_trace) sim::set_phase_cb([&](int ph, bool en, bool reg) { if (reg || ph != sim::PH_DIVIDER_RUN) return; if (en) n_before = SP->cells().size(); else if (SP->cells().size() != n_before && !divided) { divided = true; out.push_back(record(SP->cells())); } });
        for (int i = 0; i < K && !divided; i++) {
            if (S->cells().empty()) break;
            try { S->run_iteration(); } catch (std::exception&) { if (count) res.probes.hit("iteration_threw"); break; }
            if (!divided) out.push_back(record(S->cells()));
        }
        if (divided && count) res.probes.hit("stopped_at_first_division");
        sim::set_phase_cb(nullptr); sim::set_region_cb(nullptr);
        S.reset();
    } catch (std::exception& e) { res.fail("C10", "harness.unexpected_exception", e.what()); }
    sim::Stats st = sim::end_run(); if (count) res.st = st;
    return out;
}

// "" if B is A translated by t, else a description; sets iteration index
static std::string compare(const std::vector<PopRec>& A, const std::vector<PopRec>& B, const V3& t, double L, double K, size_t& at, double far = -1) {
    std::ostringstream e; double tn = far >= 0 ? far : t.norm();     // far: distance from the origin at which both runs live (two copies of a translated run)
    if (A.size() != B.size()) { at = std::min(A.size(), B.size()); e << "runs stopped after " << A.size() << " and " << B.size() << " iterations"; return e.str(); }
    double tolx = 1e-7 * L + 64 * 2.2e-16 * (tn + L) + 2000 * L * 2.2e-16 * std::pow(tn / L, 3) * (1 + A.size() / 10.0);   // last term: the code sums volume terms about the origin
    double relv = 1e-7 + 4000 * 2.2e-16 * std::pow(1 + tn / L, 3);
    if (getenv("W14_ERR")) for (size_t i = 0; i < A.size() && i < B.size(); i++) { double mx = 0; if (A[i].size() == B[i].size()) for (size_t c = 0; c < A[i].size(); c++) if (A[i][c].pos.size() == B[i][c].pos.size()) for (size_t n = 0; n < A[i][c].pos.size(); n++) if (A[i][c].used[n]) mx = std::max(mx, (B[i][c].pos[n] - t - A[i][c].pos[n]).norm()); fprintf(stderr, "ERR iteration %zu max deviation %.3g (%.3g of the cubic unit L eps (t/L)^3)\n", i + 1, mx, mx / (L * 2.2e-16 * std::pow(tn / L, 3))); }
    for (size_t i = 0; i < A.size(); i++) {
        at = i + 1;
        if (A[i].size() != B[i].size()) { e << "cell count " << A[i].size() << " vs " << B[i].size(); return e.str(); }
        for (size_t c = 0; c < A[i].size(); c++) {
            const CellRec &a = A[i][c], &b = B[i][c];
            if (a.id != b.id || a.type != b.type) { e << "cell " << c << " id/type differ"; return e.str(); }
            if (a.tri.size() != b.tri.size() || a.pos.size() != b.pos.size()) { e << "cell " << a.id << ": mesh size differs (" << a.pos.size() << " vs " << b.pos.size() << " node slots)"; return e.str(); }
            for (size_t f = 0; f < a.tri.size(); f++) if (a.fused[f] != b.fused[f] || (a.fused[f] && a.tri[f] != b.tri[f])) { e << "cell " << a.id << ": connectivity differs at face " << f; return e.str(); }
            for (size_t n = 0; n < a.pos.size(); n++) { if (a.used[n] != b.used[n]) { e << "cell " << a.id << ": node liveness differs"; return e.str(); } if (a.used[n]) { double d = (b.pos[n] - t - a.pos[n]).norm(); if (!(d <= tolx)) { e << "cell " << a.id << " node " << n << ": translated run is off by " << d << " (tolerance " << tolx << ", |t|=" << tn << ", L=" << L << ")"; return e.str(); } } }
            if (getenv("W14_TRACE") && !a.cpl.empty()) for (size_t n = 0; n < a.pos.size(); n++) if (a.used[n]) { if (a.cpl[n] != b.cpl[n]) { e << "cell " << a.id << " node " << n << ": COUPLING differs " << a.cpl[n] << " (sqd " << a.sqd[n] << ") vs " << b.cpl[n] << " (sqd " << b.sqd[n] << ")"; for (int w = 0; w < 2; w++) { const PopRec& P = w ? B[i] : A[i]; long c1 = a.cpl[n], c2 = b.cpl[n]; V3 p1 = P[c1 / 100000].pos[c1 % 100000], p2 = P[c2 / 100000].pos[c2 % 100000], x = P[c].pos[n]; char buf[400]; snprintf(buf, sizeof buf, " | run%c p1-p2=(%.3g,%.3g,%.3g) d1^2=%.17g d2^2=%.17g cpl1=%ld cpl2=%ld", w ? 'B' : 'A', p1.x - p2.x, p1.y - p2.y, p1.z - p2.z, (x - p1).n2(), (x - p2).n2(), P[c1 / 100000].cpl[c1 % 100000], P[c2 / 100000].cpl[c2 % 100000]); e << buf; } return e.str(); } if (std::fabs(a.curv[n] - b.curv[n]) > 1e-6 * std::fabs(a.curv[n]) || (a.nn[n] - b.nn[n]).norm() > 1e-6) { e << "cell " << a.id << " node " << n << ": CURV/NORMAL differs " << a.curv[n] << " vs " << b.curv[n] << " dn " << (a.nn[n] - b.nn[n]).norm(); return e.str(); } }
            if (getenv("W14_TRACE")) { double fm = 0; for (size_t n = 0; n < a.pos.size(); n++) if (a.used[n]) fm = std::max(fm, a.force[n].norm()); for (size_t n = 0; n < a.pos.size(); n++) if (a.used[n] && (a.force[n] - b.force[n]).norm() > 1e-6 * fm) { e << "cell " << a.id << " node " << n << ": FORCE differs " << a.force[n].norm() << " vs " << b.force[n].norm() << " diff " << (a.force[n] - b.force[n]).norm() << " (max " << fm << ")";
                for (int w = 0; w < 2; w++) { const PopRec& P = w ? B[i] : A[i]; V3 x = P[c].pos[n]; for (size_t c2 = 0; c2 < P.size(); c2++) if (c2 != c) { CellView v; v.pos = P[c2].pos; v.nused = P[c2].used; v.tri = P[c2].tri; v.fused = P[c2].fused; V3 q; int fi; double d = dist_to_mesh(v, x, &q, &fi); double dn = 1e300; for (size_t m = 0; m < v.pos.size(); m++) if (v.nused[m]) dn = std::min(dn, (v.pos[m] - x).norm()); char buf[200]; snprintf(buf, sizeof buf, " | run%c other cell %u: dist to surface %.6g (face %d) nearest node %.6g inside=%d", w ? 'B' : 'A', P[c2].id, d, fi, dn, (int)point_inside(v, x)); e << buf; } }
                return e.str(); } }
            if (std::fabs(a.volume - b.volume) > relv * std::fabs(a.volume)) { e << "cell " << a.id << ": volume " << a.volume << " vs " << b.volume; return e.str(); }
            if (std::fabs(a.pressure - b.pressure) > K * relv * 4 + 1e-7 * std::fabs(a.pressure)) { e << "cell " << a.id << ": pressure " << a.pressure << " vs " << b.pressure; return e.str(); }
        }
    }
    return "";
}

static V3 draw_shift(int cls, sim::Rng& r, double L, const V3& tissue_center, double voxel) {
    switch (cls) {
        case 0: return random_unit(r) * (0.1 * L * r.uni(0.5, 2));
        case 1: return random_unit(r) * (10 * L * r.uni(0.5, 2));
        case 2: return random_unit(r) * (300 * L * r.uni(0.5, 1.5));
        case 3: return tissue_center * -1.0 + random_unit(r) * (0.3 * L * r.uni(0, 1)) - tissue_center * r.uni(0, 1.0);   // across the origin
        default: return V3(voxel * r.range(-6, 6), voxel * r.range(-6, 6), voxel * r.range(-6, 6));                        // whole voxels of the contact grid
    }
}

RunResult run_w14(const Plan& pl) {
    RunResult res;
    double L = pl.get("L", 2e-5); V3 tc(pl.get("tc_x", 0), pl.get("tc_y", 0), pl.get("tc_z", 0));
    double voxel = 3 * pl.get("lmin", 1e-6) + 2 * std::max(pl.get("cut_adh", 5e-7), pl.get("cut_rep", 5e-7));
    int cls = pl.geti("shift_class", 0);
    sim::Rng r1((uint64_t)pl.get("shift_seed", 1)), r2((uint64_t)pl.get("shift_seed", 1) * 977 + 5);
    V3 t1 = draw_shift(cls, r1, L, tc, voxel), t2 = draw_shift(cls, r2, L, tc, voxel);
    std::vector<PopRec> A = execute(pl, V3(), res, true);
    std::vector<PopRec> B = execute(pl, t1, res, false);
    res.sim_iterations = A.size(); res.sim_time = A.size() * pl.get("dt", 1e-7);
    Fnv h; for (auto& p : A) for (auto& c : p) { h.add(c.id); for (size_t n = 0; n < c.pos.size(); n++) if (c.used[n]) { h.addd(c.pos[n].x); h.addd(c.pos[n].y); h.addd(c.pos[n].z); } }
    res.fingerprint = h.h; res.nontrivial = A.size() >= 3;
    if (res.probes.c.count("iteration_threw")) { res.probes.hit("unstable_reference_discarded"); res.nontrivial = false; return res; }   // a run that blows up amplifies rounding noise without bound
    size_t at1 = 0, at2 = 0; std::string e1 = compare(A, B, t1, L, 2.5e3, at1);
    res.probes.hit("pairs_compared");
    if (!e1.empty() && getenv("W14_TRACE")) {
        std::vector<std::pair<std::string, PopRec>> ta, tb; g_trace = &ta; execute(pl, V3(), res, false); g_trace = &tb; execute(pl, t1, res, false); g_trace = nullptr;
        for (size_t i = 0; i < std::min(ta.size(), tb.size()); i++) { size_t at; std::string e = compare({ta[i].second}, {tb[i].second}, t1, L, 2.5e3, at); fprintf(stderr, "TRACE %zu %s | %s : %s\n", i, ta[i].first.c_str(), tb[i].first.c_str(), e.empty() ? "same" : e.c_str()); if (!e.empty()) break; }
    }
    if (!e1.empty()) {
        res.probes.hit("first_mismatch");
        std::vector<PopRec> C = execute(pl, t2, res, false);
        std::string e2 = compare(A, C, t2, L, 2.5e3, at2);
        // "to rounding accuracy": a trajectory in which a discrete decision hangs on the last bits (an exact tie between two
        // coupling partners at a junction of three cells, say) cannot be judged. Such a trajectory also diverges from itself
        // when the input is re-rounded, i.e. moved by 1e-13..1e-10 L (far below any tolerance of the code); twelve such runs are tried.
        bool unstable = false;
        if (!e2.empty()) { sim::Rng rp((uint64_t)pl.get("shift_seed", 1) * 31 + 7); for (int k = 0; k < 12 && !unstable; k++) { V3 tp = random_unit(rp) * (std::pow(10.0, -13 + (k % 4)) * L * rp.uni(0.5, 2)); std::vector<PopRec> P = execute(pl, tp, res, false); size_t atp = 0; if (!compare(A, P, tp, L, 2.5e3, atp).empty() && atp <= std::max(at1, at2)) unstable = true; }
            // the same question for the translated run: the code sums volumes about the origin, so far from it the rounding it is sensitive to is (|t|/L)^3 times larger;
            // two copies of the translated run that differ by a re-rounding must agree with each other as well as the translated run is asked to agree with the reference
            for (int k = 0; k < 6 && !unstable; k++) { V3 tp = random_unit(rp) * (std::pow(10.0, -12 + (k % 3)) * (L + t1.norm()) * rp.uni(0.5, 2)); std::vector<PopRec> P = execute(pl, t1 + tp, res, false); size_t atp = 0; if (!compare(B, P, tp, L, 2.5e3, atp, t1.norm()).empty() && atp <= at1) { unstable = true; res.probes.hit("rounding_unstable_far_from_origin"); } } }
        if (unstable) { res.probes.hit("rounding_unstable_discarded"); res.nontrivial = false; }
        else if (!e2.empty()) { std::ostringstream d; d << "after iteration " << at1 << " with translation (" << t1.x << "," << t1.y << "," << t1.z << "): " << e1 << "; confirmed with an independent translation of the same class after iteration " << at2 << ": " << e2; res.fail("C14", "translation", d.str()); }
        else res.probes.hit("mismatch_not_confirmed");
    }
    return res;
}

Plan gen_w14(uint64_t seed, const std::string& tier, const std::string& focus) {
    Plan pl; pl.workload = "w14"; pl.seed = seed; sim::Rng r(seed * 32452843 + 3);
    bool thorough = tier == "thorough";
    const double R = 5e-6; double lmin = R * r.uni(0.18, 0.3); pl.p["lmin"] = lmin;
    double cutoff = lmin * r.uni(0.3, 1.0); pl.p["cut_adh"] = cutoff; pl.p["cut_rep"] = r.coin(0.6) ? cutoff : cutoff * r.uni(0.5, 1.5);
    pl.p["dt"] = 1e-7; pl.p["damping"] = 5e-10; pl.p["swap"] = r.coin(0.4); pl.p["jitter"] = 0.05;
    int n = r.range(1, thorough ? 5 : 3); int layout = (int)r.below(3); pl.p["ncells"] = n; pl.p["layout"] = layout;
    std::vector<V3> ctr; std::vector<double> rad; V3 mean;
    for (int k = 0; k < n; k++) { double rk = R * r.uni(0.8, 1.2); V3 c; if (k > 0) { int j = (int)r.below(k); double gap = layout == 0 ? cutoff * r.uni(3, 8) : (layout == 1 ? cutoff * r.uni(-0.3, 0.8) : -R * r.uni(0.05, 0.25)); c = ctr[j] + random_unit(r) * (rad[j] + rk + gap); } ctr.push_back(c); rad.push_back(rk); mean += c; }
    mean = mean / (double)n; V3 base = random_unit(r) * (R * r.uni(0, 6));
    double L = 0; for (int k = 0; k < n; k++) L = std::max(L, (ctr[k] - mean).norm() + rad[k]); L *= 2; pl.p["L"] = L;
    pl.p["tc_x"] = mean.x + base.x; pl.p["tc_y"] = mean.y + base.y; pl.p["tc_z"] = mean.z + base.z;
    for (int k = 0; k < n; k++) {
        std::string pre = "c" + std::to_string(k) + "_"; double u = r.uni(); int kind = u < 0.6 ? 0 : (u < 0.7 ? 1 : (u < 0.8 ? 2 : (u < 0.9 ? 3 : 4)));
        pl.p[pre + "kind"] = kind; pl.p[pre + "shape"] = 1; pl.p[pre + "res"] = r.coin(0.75) ? 1 : 2; pl.p[pre + "r"] = rad[k];
        pl.p[pre + "x"] = ctr[k].x + base.x; pl.p[pre + "y"] = ctr[k].y + base.y; pl.p[pre + "z"] = ctr[k].z + base.z; pl.p[pre + "seed"] = (double)r.below(1000000);
    }
    double V0 = 4.18879 * R * R * R; int sc = (int)r.below(4);
    if (sc == 1) { pl.p["growth"] = r.uni(1e-11, 5e-11); pl.p["div_vol"] = V0 * r.uni(0.5, 1.05); }
    if (sc == 2) { pl.p["growth"] = -r.uni(2e-11, 8e-11); pl.p["min_vol"] = V0 * r.uni(0.5, 0.9); }
    if (sc == 3) { pl.p["growth"] = r.uni(1e-11, 4e-11); pl.p["max_pressure"] = r.uni(5, 500); }
    if (r.coin(0.3)) pl.p["init_pressure"] = r.uni(10, 300);
    if (r.coin(0.2)) pl.p["bending"] = 2e-18;
    if (r.coin(0.2)) pl.p["area_elasticity"] = 1e-15;
    pl.p["shift_class"] = (int)r.below(5); pl.p["shift_seed"] = (double)r.below(1u << 30);
    draw_schedule(pl, r, 8); pl.p["clock"] = 0;
    pl.p["iters"] = r.range(6, thorough ? 60 : 25);
    return pl;
}

std::vector<Plan> shrink_w14(const Plan& p) {
    std::vector<Plan> out;
    if (p.geti("team", 1) > 1) { Plan q = p; q.p["team"] = 1; q.p["strategy"] = 0; out.push_back(q); }
    if (p.geti("iters", 1) > 1) { Plan q = p; q.p["iters"] = p.geti("iters") / 2; out.push_back(q); Plan q2 = p; q2.p["iters"] = p.geti("iters") - 1; out.push_back(q2); }
    int n = p.geti("ncells", 1); if (n > 1) { Plan q = p; q.p["ncells"] = n - 1; out.push_back(q); }
    for (const char* k : {"bending", "area_elasticity", "init_pressure", "growth", "max_pressure", "min_vol", "div_vol"}) if (p.p.count(k)) { Plan q = p; q.p.erase(k); out.push_back(q); }
    return out;
}

Register reg_w14({"w14", gen_w14, run_w14, shrink_w14});
}
