// W10: the whole pipeline as main() runs it (C10): files -> simulation_initializer (reader, optional initial
// triangulation) -> solver -> run() with file output -> teardown, under ASan/UBSan, on a team with a drawn
// schedule, with output-path faults and injected exceptions. The same plan is the unit of the poison
// differential (heap fill byte 0x00 vs 0x7f must give the same event log), of valgrind and of TSan runs.
#include "harness/tissue.hpp"
#include "harness/iofmt.hpp"
#include "simulation_initializer.hpp"
#include <unistd.h>

using namespace hz;

namespace {

RunResult run_w10(const Plan& pl) {
    RunResult res; sim::RunConfig cfg = config_from(pl); cfg.step_budget = 6000000000ull; sim::clear_faults(); sim::begin_run(cfg);
    Fnv log;
    try {
        sim::Rng r(pl.seed * 911 + 5);
        int n = pl.geti("ncells", 1); const double R = 5e-6; bool tri = pl.geti("triangulate", 0) != 0; double lmin = pl.get("lmin", 1.5e-6);
        std::vector<InCell> in;
        for (int k = 0; k < n; k++) { InCell c; sim::Rng sr(pl.seed * 17 + k); c.m = gen_shape(pl.geti("c" + std::to_string(k) + "_shape", 0), 1, sr); c.m.apply(random_rotation(sr), V3()); c.m.scale(R * pl.get("c" + std::to_string(k) + "_rs", 1)); c.m.translate(V3(pl.get("c" + std::to_string(k) + "_x", 2.4 * R * k), pl.get("c" + std::to_string(k) + "_y", 0), 0)); c.type = pl.geti("c" + std::to_string(k) + "_kind", 0); in.push_back(c); }
        std::string dir = g_scratch + "/w10"; mkdir(dir.c_str(), 0700); std::string vp = dir + "/in.vtk", xp = dir + "/p.xml", out = g_scratch + "/out10";
        spit(vp, write_vtk(in, "%.10g"));
        XmlSpec xs; xs.mesh_path = vp; xs.out_path = out; xs.triangulate = tri; xs.swap = pl.geti("swap", 0); xs.lmin = lmin; xs.cut_adh = xs.cut_rep = 0.4 * lmin; xs.dt = 1e-7; xs.sampling = pl.get("sampling", 5e-7); xs.duration = pl.get("duration", 2e-6);
        xs.growth = pl.get("growth", 0); xs.div_vol = pl.get("div_vol", 1e300); xs.min_vol = pl.get("min_vol", 1e-17); xs.nft = 3; spit(xp, write_xml(xs));
        for (const Op& op : pl.ops) if (op.name == "fault") sim::add_fault({(int)op.arg(0), (uint64_t)op.arg(1), (int)op.arg(2)});
        std::string outcome = "completed";
        try {
            simulation_initializer si(xp, false);
            solver s(si.get_simulation_parameters(), si.get_cell_lst(), pl.geti("team", 1), pl.geti("stats_in_string", 0) != 0, false);
            int of = pl.geti("output_fault", 0);
            if (of == 1) { std::string c = "rm -rf '" + out + "/cell_data' && : > '" + out + "/cell_data'"; if (system(c.c_str())) {} }        // cell_data is a regular file: open fails
            if (of == 2) { std::string c = "ln -sf /dev/full '" + out + "/face_data/result_1.vtk'"; if (system(c.c_str())) {} }              // every write fails with ENOSPC
            s.run();
            for (auto& c : s.get_cell_lst()) { Fnv h; hash_cell(h, *c); log.add(h.h); }
            res.sim_iterations = (uint64_t)std::llround(pl.get("duration", 2e-6) / 1e-7);
        } catch (std::exception& e) { outcome = "exception"; std::string w = e.what(); size_t q; while ((q = w.find(g_scratch)) != std::string::npos) w.replace(q, g_scratch.size(), "@SCRATCH@"); log.adds(w); }   // (the scratch path contains the pid)
        res.probes.hit(outcome); res.probes.hit("attempts", sim::stats().phase_calls[sim::PH_TRIANGULATE_SURFACE]);
        res.faults_fired["exception_injected"] = sim::stats().faults_fired; if (pl.geti("output_fault", 0)) res.faults_fired["output_path_fault"] = 1;
    } catch (...) { res.fail("C10", "foreign_exception", "the pipeline threw something that is not a std::exception"); }
    sim::clear_faults();
    res.st = sim::end_run(); res.fingerprint = log.h; res.nontrivial = true;
    if (res.st.escaped_exception) res.fail("C15", "region.escaped_exception", "an exception left the body of a parallel region");
    return res;
}

Plan gen_w10(uint64_t seed, const std::string& tier, const std::string& focus) {
    Plan pl; pl.workload = "w10"; pl.seed = seed; sim::Rng r(seed * 613 + 9);
    bool light = focus == "valgrind" || focus == "tsan";
    int n = r.range(1, light ? 2 : 3); pl.p["ncells"] = n; pl.p["triangulate"] = r.coin(light ? 0.15 : 0.35); pl.p["lmin"] = 5e-6 * (pl.geti("triangulate") ? r.uni(0.28, 0.4) : r.uni(0.2, 0.35)); pl.p["swap"] = r.coin(0.4);
    for (int k = 0; k < n; k++) { std::string pre = "c" + std::to_string(k) + "_"; pl.p[pre + "shape"] = pl.geti("triangulate") ? (int)r.below(2) : (int)r.below(SH_COUNT); pl.p[pre + "rs"] = r.uni(0.8, 1.2); pl.p[pre + "kind"] = r.coin(0.7) ? 0 : (int)r.below(5); pl.p[pre + "x"] = 5e-6 * (2.0 * k + r.uni(-0.2, 0.6) * k); }
    double V0 = 4.18879 * 1.25e-16; int sc = (int)r.below(4);
    if (sc == 1) { pl.p["growth"] = r.uni(2e-11, 6e-11); pl.p["div_vol"] = V0 * r.uni(0.5, 1.02); }
    if (sc == 2) { pl.p["growth"] = -r.uni(4e-11, 1e-10); pl.p["min_vol"] = V0 * r.uni(0.6, 0.95); }
    pl.p["duration"] = 1e-7 * r.range(light ? 6 : 10, light ? 25 : 120); pl.p["sampling"] = 1e-7 * r.range(1, 20); pl.p["stats_in_string"] = r.coin(0.3);
    pl.p["clock"] = (int)r.below(3); draw_schedule(pl, r, 16);
    if (focus == "tsan") { pl.p["free_running"] = 1; pl.p["team"] = r.range(2, 8); }
    if (focus == "valgrind") { pl.p["team"] = r.range(1, 2); pl.p["strategy"] = 0; }
    if (!light && r.coin(0.2)) pl.p["output_fault"] = r.range(1, 2);
    if (!light && r.coin(0.2)) { static const int ph[] = {sim::PH_REFINE_MESH, sim::PH_WRITE_CELL_FILE, sim::PH_WRITE_FACE_FILE, sim::PH_REBASE, sim::PH_STATS_WRITE}; static const int ty[] = {sim::EX_MESH_INTEGRITY, sim::EX_MESH_WRITER, sim::EX_MESH_WRITER, sim::EX_MESH_INTEGRITY, sim::EX_RUNTIME}; int q = (int)r.below(5); pl.ops.push_back({"fault", {(double)ph[q], (double)r.range(1, 12), (double)ty[q]}}); }
    return pl;
}

Register reg_w10({"w10", gen_w10, run_w10, nullptr});
}
