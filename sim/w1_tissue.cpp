// W1: tissue runs through the real solver::run_iteration with phase monitors.
//  C03 integration law (reference integrator at update_nodes_positions entry/exit)
//  C04 cell-cycle law (target volume, pressure, division eligibility, 3-sigma, removal, id ledger)
//  C08 identities and cross references at every dereferencing phase
//  C01 topology T1-T7 of every cell after every iteration
//  C15(a) same plan on a team of N under a drawn schedule == team of 1 (non-interacting tissues)
#include "harness/tissue.hpp"

using namespace hz;

namespace {

struct NodeSnap { V3 x, p, f; bool used; int cpl_cell = -1, cpl_node = -1; };
struct CellSnap { unsigned id; bool is_static; double mass; size_t live; std::vector<NodeSnap> n; };

struct W1 {
    const Plan& pl; RunResult& res; bool monitors;
    std::unique_ptr<sim_solver> S; Tissue T;
    bool may_interact = false;                    // some pair of cells came within contact range of each other (bounding spheres)
    std::vector<uint64_t> iter_hash;              // order-independent population hash per iteration
    std::vector<CellSnap> snap; double t_before = 0; std::set<std::pair<int,int>> multi_pointed;
    std::set<unsigned> ever_ids, removed_ids, overridden; unsigned max_id_seen = 0;
    std::map<unsigned, std::pair<double, double>> pre_internal;   // id -> (target volume, growth rate) at region start
    std::map<unsigned, double> vol_before_refine;
    std::set<unsigned> must_divide, may_divide, pop_before_div; std::map<unsigned, uint64_t> geo_before_div; std::map<unsigned,int> kind_of;
    uint64_t iters_done = 0;
    W1(const Plan& p, RunResult& r, bool mon) : pl(p), res(r), monitors(mon) {}

    static uint64_t cell_geo_hash(cell& c) {   // ids excluded: for order-independent comparison
        Fnv h; auto& N = cell_tester::nodes(c); auto& F = cell_tester::faces(c);
        for (auto& n : N) if (n.is_used()) { h.addd(n.pos().dx()); h.addd(n.pos().dy()); h.addd(n.pos().dz());
#if DYNAMIC_MODEL_INDEX == 0
            h.addd(n.momentum().dx()); h.addd(n.momentum().dy()); h.addd(n.momentum().dz());
#endif
        }
        for (auto& f : F) if (f.is_used()) { h.add(cell_tester::fn1(f)); h.add(cell_tester::fn2(f)); h.add(cell_tester::fn3(f)); }
        return h.h;
    }
    static uint64_t cell_surface_hash(cell& c) {   // multiset of triangles by coordinates (independent of slot numbering)
        CellView v = view_of(c); std::vector<uint64_t> hs;
        for (size_t i = 0; i < v.tri.size(); i++) if (v.fused[i]) { uint64_t best = 0; for (int r = 0; r < 3; r++) { Fnv h; for (int k = 0; k < 3; k++) { const V3& p = v.pos[v.tri[i][(r + k) % 3]]; h.addd(p.x); h.addd(p.y); h.addd(p.z); } if (r == 0 || h.h < best) best = h.h; } hs.push_back(best); }
        std::sort(hs.begin(), hs.end()); Fnv h; for (auto x : hs) h.add(x); return h.h;
    }
    uint64_t pop_hash() { std::vector<uint64_t> v; for (auto& c : S->cells()) v.push_back(cell_geo_hash(*c)); std::sort(v.begin(), v.end()); Fnv h; for (auto x : v) h.add(x); return h.h; }

    // ------------------------------------------------------------------ C08
    void check_refs(const char* where, bool couplings, bool use_point = true) {
        auto& L = S->cells(); std::set<unsigned> ids;
        for (size_t i = 0; i < L.size(); i++) {
            cell& c = *L[i];
            if (use_point && c.get_local_id() != i) { std::ostringstream d; d << where << ": cell at list position " << i << " (id " << c.get_id() << ") has position index " << c.get_local_id(); res.fail("C08", "local_id", d.str()); return; }
            if (!ids.insert(c.get_id()).second) { std::ostringstream d; d << where << ": persistent id " << c.get_id() << " used by two cells"; res.fail("C08", "id_unique", d.str()); return; }
            auto type = c.get_cell_type(); auto& F = cell_tester::faces(c); auto& N = cell_tester::nodes(c);
            for (size_t f = 0; f < F.size(); f++) if (F[f].is_used()) {
                if (cell_tester::fowner(F[f]).get() != &c) { std::ostringstream d; d << where << ": face " << f << " of cell " << c.get_id() << " has another owner cell"; res.fail("C08", "face_owner", d.str()); return; }
                if (F[f].get_local_face_type_id() >= type->face_types_.size()) { std::ostringstream d; d << where << ": face " << f << " of cell " << c.get_id() << " has face-type index " << F[f].get_local_face_type_id() << " but the cell type has " << type->face_types_.size() << " face types"; res.fail("C08", "face_type_index", d.str()); return; }
            }
#if CONTACT_MODEL_INDEX == 1
            if (couplings) for (size_t k = 0; k < N.size(); k++) if (N[k].is_used() && N[k].is_coupled()) {
                auto [ci, ni] = N[k].get_coupled_node();
                std::ostringstream d; d << where << ": node " << k << " of cell " << c.get_id() << " (position " << i << ") is coupled to (cell index " << ci << ", node " << ni << ")";
                if (ci >= L.size()) { d << " but the population has " << L.size() << " cells"; res.fail("C08", "coupling_cell_range", d.str()); return; }
                if (ci == i) { d << " which is its own cell"; res.fail("C08", "coupling_same_cell", d.str()); return; }
                auto& N2 = cell_tester::nodes(*L[ci]);
                if (ni >= N2.size() || !N2[ni].is_used()) { d << " which is not a live node"; res.fail("C08", "coupling_node_live", d.str()); return; }
                if (L[ci]->get_cell_type_id() != 0 || c.get_cell_type_id() != 0) { d << " across a non-epithelial cell"; res.fail("C08", "coupling_intended_cell", d.str()); return; }
            }
#endif
        }
    }

    // ------------------------------------------------------------------ C03
    void snap_for_integration() {
        snap.clear(); multi_pointed.clear(); t_before = S->time();
        for (auto& cp : S->cells()) {
            cell& c = *cp; CellSnap cs; cs.id = c.get_id(); cs.is_static = c.is_static(); cs.live = 0;
            auto& N = cell_tester::nodes(c);
            for (auto& n : N) { NodeSnap s; s.used = n.is_used(); s.x = V3(n.pos()); s.f = V3(n.force());
#if DYNAMIC_MODEL_INDEX == 0
                s.p = V3(n.momentum());
#endif
#if CONTACT_MODEL_INDEX == 1
                if (n.is_used() && n.is_coupled()) { auto cn = n.get_coupled_node(); s.cpl_cell = (int)cn.first; s.cpl_node = (int)cn.second; }
#elif CONTACT_MODEL_INDEX == 2
                if (n.is_used() && n.is_coupled()) { s.cpl_cell = -2; for (auto& kv : cell_tester::coupled_map(n)) multi_pointed.insert({(int)kv.first, (int)kv.second.first}); }
#endif
                if (s.used) cs.live++; cs.n.push_back(s); }
            cs.mass = cs.live ? c.get_mass() / (double)cs.live : 0;
            snap.push_back(cs);
        }
    }
    void check_integration() {
        if (getenv("W1_NO_C03")) return;   // (debugging aid: lets a run continue past a C03 violation of a deliberately broken tree)
        auto& L = S->cells(); const double dt = T.params.time_step_, damp = T.params.damping_coefficient_;
        if (L.size() != snap.size()) { res.fail("C03", "population_changed", "update_nodes_positions changed the population"); return; }
        if (!bits_equal(S->time(), t_before + dt)) { std::ostringstream d; d << "simulated time went from " << t_before << " to " << S->time() << " with dt " << dt; res.fail("C03", "time", d.str()); }
        // who points at whom
        std::map<std::pair<int, int>, int> pointed;   // target -> count
        for (size_t i = 0; i < snap.size(); i++) for (size_t k = 0; k < snap[i].n.size(); k++) if (snap[i].n[k].cpl_cell >= 0) pointed[{snap[i].n[k].cpl_cell, snap[i].n[k].cpl_node}]++;
        { std::map<std::pair<int, int>, std::set<int>> writers;   // node of a lower-index cell <- cells whose integration thread moves it
          for (size_t i = 0; i < snap.size(); i++) for (size_t k = 0; k < snap[i].n.size(); k++) if (snap[i].n[k].cpl_cell >= 0 && snap[i].n[k].cpl_cell < (int)i) writers[{snap[i].n[k].cpl_cell, snap[i].n[k].cpl_node}].insert((int)i);
          for (auto& w : writers) if (w.second.size() >= 2) { res.probes.hit("node_integrated_by_two_cells"); break; } }
        for (size_t i = 0; i < snap.size(); i++) {
            auto& N = cell_tester::nodes(*L[i]); const CellSnap& cs = snap[i];
            for (size_t k = 0; k < cs.n.size(); k++) {
                const NodeSnap& b = cs.n[k]; if (!b.used) continue;
                V3 x(N[k].pos()), f(N[k].force()), p;
#if DYNAMIC_MODEL_INDEX == 0
                p = V3(N[k].momentum());
#endif
                std::ostringstream who; who << "node " << k << " of cell " << cs.id;
                if (cs.is_static) {
                    if (!bits_equal(x, b.x)) { res.fail("C03", "static_moved", who.str() + " belongs to a static cell but moved"); return; }
                    continue;
                }
                if (b.cpl_cell == -2 || multi_pointed.count({(int)i, (int)k})) { res.probes.hit("c03_multi_coupled_skipped"); continue; }
                bool uncoupled = b.cpl_cell < 0; int np = pointed.count({(int)i, (int)k}) ? pointed[{(int)i, (int)k}] : 0;
                bool pair_case = false;
                if (!uncoupled && b.cpl_cell < (int)snap.size() && b.cpl_cell != (int)i && b.cpl_node < (int)snap[b.cpl_cell].n.size()) { const NodeSnap& o = snap[b.cpl_cell].n[b.cpl_node]; pair_case = o.used && o.cpl_cell == (int)i && o.cpl_node == (int)k && np == 1 && pointed[{b.cpl_cell, b.cpl_node}] == 1 && !snap[b.cpl_cell].is_static; }
                // a node in a coupling that is not mutual is not part of a "mutually coupled pair": like any other live node it has to follow the scheme on its own
                if (!pair_case && !(uncoupled && np == 0)) { res.probes.hit("c03_nonmutual_judged_as_single"); who << " (in a coupling that is not mutual: points at (" << b.cpl_cell << "," << b.cpl_node << "), pointed at by " << np << ")"; }
                if (!pair_case) {
                    V3 xr, pr; double m = cs.mass;
#if DYNAMIC_MODEL_INDEX == 0
                    pr = b.p + (b.f - b.p * (damp / m)) * dt; xr = b.x + pr * (dt / m);
                    double tolp = 1e-12 * (b.p.norm() + b.f.norm() * dt) + 1e-300, tolx = 1e-12 * (pr.norm() * dt / m) + 4e-16 * b.x.norm() + 1e-300;
                    if ((p - pr).norm() > tolp) { std::ostringstream d; d << who.str() << ": momentum after the step differs from p+(f-damping*p/m)*dt (mass " << m << ")"; res.fail("C03", "momentum_law", d.str()); return; }
#else
                    xr = b.x + b.f * (dt / damp); double tolx = 1e-12 * (b.f.norm() * dt / damp) + 4e-16 * b.x.norm() + 1e-300;
#endif
                    if ((x - xr).norm() > tolx) { std::ostringstream d; d << who.str() << ": position after the step differs from the integration law by " << (x - xr).norm() << " (step " << (xr - b.x).norm() << ", per-node mass " << m << ")"; res.fail("C03", "position_law", d.str()); return; }
                    if (f.n2() != 0) { res.fail("C03", "force_reset", who.str() + ": force accumulator not zero after the step"); return; }
                    res.probes.hit("c03_nodes_checked");
                } else {
                    const NodeSnap& o = snap[b.cpl_cell].n[b.cpl_node];
                    if ((int)i < b.cpl_cell) continue;      // judged from the partner with the larger index
                    const CellSnap& cs2 = snap[b.cpl_cell]; auto& N2 = cell_tester::nodes(*L[b.cpl_cell]);
                    V3 x2(N2[b.cpl_node].pos()), f2(N2[b.cpl_node].force());
                    double mavg = (cs.mass + cs2.mass) * 0.5; V3 favg = (b.f + o.f) * 0.5;
                    V3 d1 = x - b.x, d2 = x2 - o.x;
#if DYNAMIC_MODEL_INDEX == 0
                    V3 p2(N2[b.cpl_node].momentum()); V3 pavg = (b.p + o.p) * 0.5; V3 pr = pavg + (favg - pavg * (damp / mavg)) * dt; V3 dr = pr * (dt / mavg);
                    double tolp = 1e-12 * (pavg.norm() + favg.norm() * dt) + 1e-300;
                    if ((p - pr).norm() > tolp || (p2 - pr).norm() > tolp) { res.fail("C03", "pair_momentum", who.str() + ": coupled pair's momenta after the step are not the damped average of the pair (total momentum not preserved)"); return; }
#else
                    V3 dr = favg * (dt / damp);
#endif
                    double told = 1e-12 * dr.norm() + 4e-16 * (b.x.norm() + o.x.norm()) + 1e-300;
                    if ((d1 - d2).norm() > told) { res.fail("C03", "pair_displacement", who.str() + ": mutually coupled nodes received different displacements"); return; }
                    if ((d1 - dr).norm() > told) { res.fail("C03", "pair_law", who.str() + ": coupled pair's displacement differs from the law applied to the pair's mean force, momentum and mass"); return; }
                    if (f.n2() != 0 || f2.n2() != 0) { res.fail("C03", "force_reset", who.str() + ": force accumulator of a coupled pair not zero after the step"); return; }
                    res.probes.hit("c03_coupled_pairs_checked");
                }
            }
        }
    }

    // ------------------------------------------------------------------ C04
    std::map<unsigned, double> tv_after;    // target volume right after the last growth step, per persistent id
    void before_internal_forces() {
        // "the target volume increases by growth_rate*dt per iteration": nothing else may change it between two growth steps
        // (output, remeshing, failed divisions, removal of other cells); daughters carry new ids and start a new record
        for (auto& c : S->cells()) { if (c->is_static()) continue; auto it = tv_after.find(c->get_id()); if (it != tv_after.end() && !bits_equal(it->second, c->get_target_volume())) { std::ostringstream d; d << "cell " << c->get_id() << " (iteration " << S->iteration() << "): target volume went from " << it->second << " after the previous growth step to " << c->get_target_volume() << " before this one, outside the growth law"; res.fail("C04", "target_volume_between_steps", d.str()); return; } }
        pre_internal.clear(); for (auto& c : S->cells()) pre_internal[c->get_id()] = {c->get_target_volume(), c->get_growth_rate()}; }
    void after_internal_forces() {
        const double dt = T.params.time_step_;
        for (auto& cp : S->cells()) {
            cell& c = *cp; if (c.is_static()) continue;
            auto it = pre_internal.find(c.get_id()); if (it == pre_internal.end()) continue;
            auto type = c.get_cell_type();
            double tv = it->second.first + dt * it->second.second; if (tv < type->min_vol_) tv = type->min_vol_;
            std::ostringstream who; who << "cell " << c.get_id() << " (iteration " << S->iteration() << ")";
            if (std::fabs(c.get_target_volume() - tv) > 1e-14 * std::fabs(tv) + 1e-300) { std::ostringstream d; d << who.str() << ": target volume " << c.get_target_volume() << " but law gives max(" << it->second.first << "+" << it->second.second << "*dt, min_vol)=" << tv; res.fail("C04", "target_volume", d.str()); return; }
            if (c.get_target_volume() < type->min_vol_) { res.fail("C04", "target_volume_floor", who.str() + ": target volume below the type's minimum volume"); return; }
            tv_after[c.get_id()] = c.get_target_volume();
            CellView v = view_of(c); Geo g = geometry(v);
            double D = std::max({std::fabs(g.centroid_area.x), std::fabs(g.centroid_area.y), std::fabs(g.centroid_area.z)}), Ld = (g.bmax - g.bmin).norm();
            double relv = (1e-9 + 1e-15 * std::pow(1 + D / Ld, 3)) * std::max(1.0, 0.01 * Ld * Ld * Ld / std::max(g.volume, 1e-300));   // rounding of a volume sum scales with the extent, not with the (possibly tiny) volume
            if (g.volume > 1e-6 * Ld * Ld * Ld && tv > 0) {
                double pr = -type->bulk_modulus_ * std::log(g.volume / tv); if (pr > type->max_pressure_) pr = type->max_pressure_;
                double tol = type->bulk_modulus_ * relv * 4 + std::fabs(pr) * 1e-9;
                if (std::fabs(c.get_pressure() - pr) > tol) { std::ostringstream d; d << who.str() << ": pressure " << c.get_pressure() << " but -K ln(V/Vt) capped = " << pr << " (V=" << g.volume << ", Vt=" << tv << ")"; res.fail("C04", "pressure", d.str()); return; }
                if (std::fabs(c.get_volume() - g.volume) > relv * 4 * g.volume) { std::ostringstream d; d << who.str() << ": reported volume " << c.get_volume() << " but the mesh encloses " << g.volume; res.fail("C04", "volume", d.str()); return; }
                res.probes.hit("c04_cells_checked");
            }
        }
    }
    void before_division() {
        must_divide.clear(); may_divide.clear(); pop_before_div.clear(); geo_before_div.clear();
        for (auto& cp : S->cells()) {
            cell& c = *cp; pop_before_div.insert(c.get_id()); geo_before_div[c.get_id()] = cell_surface_hash(c); kind_of[c.get_id()] = c.get_cell_type_id();
            bool epi = dynamic_cast<epithelial_cell*>(&c) != nullptr; if (!epi) continue;
            double V = c.get_volume(), dv = c.get_division_volume(); Geo g = geometry(view_of(c));
            if (V >= dv * (1 + 1e-3) && g.volume >= dv * (1 + 1e-3)) must_divide.insert(c.get_id());
            if (V >= dv * (1 - 1e-3) || g.volume >= dv * (1 - 1e-3)) may_divide.insert(c.get_id());
        }
    }
    void after_division() {
        std::set<unsigned> now; std::vector<unsigned> fresh;
        for (auto& c : S->cells()) { now.insert(c->get_id()); if (!pop_before_div.count(c->get_id())) fresh.push_back(c->get_id()); }
        std::vector<unsigned> gone; for (unsigned id : pop_before_div) if (!now.count(id)) gone.push_back(id);
        for (unsigned id : gone) if (!may_divide.count(id)) { std::ostringstream d; d << "cell " << id << " (type " << kind_of[id] << ") was divided although it is not an epithelial cell at or above its division volume"; res.fail("C04", "division_trigger", d.str()); return; }
        if (fresh.size() != 2 * gone.size()) { std::ostringstream d; d << gone.size() << " cells left the population in the division phase but " << fresh.size() << " new cells appeared (team " << pl.geti("team", 1) << "): not what dividing the ready cells one after another gives"; res.fail("C15", "division.same_as_sequential", d.str()); return; }
        for (unsigned id : must_divide) if (now.count(id)) { // still there: must be untouched (failed division)
            for (auto& c : S->cells()) if (c->get_id() == id && cell_surface_hash(*c) != geo_before_div[id]) { std::ostringstream d; d << "cell " << id << " was above its division volume, was not divided, but its mesh changed"; res.fail("C09", "failed_division_untouched", d.str()); return; }
            res.probes.hit("division_failed_naturally");
        }
        for (unsigned id : fresh) { if (ever_ids.count(id) || id <= max_id_seen) { std::ostringstream d; d << "daughter cell received id " << id << " which is not fresh (largest id so far " << max_id_seen << ")"; res.fail("C08", "id_fresh", d.str()); return; } }
        for (unsigned id : fresh) { ever_ids.insert(id); max_id_seen = std::max(max_id_seen, id); }
        if (!gone.empty()) { res.probes.hit("divisions", gone.size()); if (gone.size() > 1) res.probes.hit("simultaneous_divisions"); }
        for (unsigned id : gone) removed_ids.insert(id);
        // 3-sigma clamp of the freshly drawn properties
        for (auto& cp : S->cells()) if (!pop_before_div.count(cp->get_id())) check_random_props(*cp, "after division");
    }
    void check_random_props(cell& c, const char* when) {
        auto t = c.get_cell_type(); if (overridden.count(c.get_id())) return;
        double g = c.get_growth_rate(), lo = t->avg_growth_rate_ - 3 * t->std_growth_rate_, hi = t->avg_growth_rate_ + 3 * t->std_growth_rate_, eps = 1e-12 * (std::fabs(lo) + std::fabs(hi)) + 1e-300;
        if (!(g >= lo - eps && g <= hi + eps)) { std::ostringstream d; d << "cell " << c.get_id() << " " << when << ": growth rate " << g << " outside mean+-3sigma [" << lo << "," << hi << "]"; res.fail("C04", "three_sigma_growth", d.str()); }
        if (!std::isinf(t->avg_division_vol_)) { double v = c.get_division_volume(), l2 = t->avg_division_vol_ - 3 * t->std_division_vol_, h2 = t->avg_division_vol_ + 3 * t->std_division_vol_, e2 = 1e-12 * (std::fabs(l2) + std::fabs(h2)) + 1e-300;
            if (!(v >= l2 - e2 && v <= h2 + e2)) { std::ostringstream d; d << "cell " << c.get_id() << " " << when << ": division volume " << v << " outside mean+-3sigma"; res.fail("C04", "three_sigma_division", d.str()); } }
        else if (!std::isinf(c.get_division_volume())) res.fail("C04", "division_volume_inf", "infinite mean division volume did not give an infinite division volume");
        if (t->std_growth_rate_ > 0 || t->std_division_vol_ > 0) res.probes.hit("random_props_checked");
    }
    void after_iteration(const std::set<unsigned>& before_ids) {
        // removal: nobody below the minimum volume stays; removed ids never come back
        std::set<unsigned> now;
        for (auto& cp : S->cells()) { cell& c = *cp; now.insert(c.get_id());
            if (c.get_volume() < c.get_cell_type()->min_vol_) { std::ostringstream d; d << "cell " << c.get_id() << " has volume " << c.get_volume() << " below the minimum volume " << c.get_cell_type()->min_vol_ << " but is still in the population after the iteration"; res.fail("C04", "removal", d.str()); }
            if (removed_ids.count(c.get_id())) { std::ostringstream d; d << "cell id " << c.get_id() << " reappeared after it had left the population"; res.fail("C04", "removed_reappears", d.str()); } }
        for (unsigned id : before_ids) if (!now.count(id) && !removed_ids.count(id)) { removed_ids.insert(id); res.probes.hit("removals"); }
    }

    // ------------------------------------------------------------------ hooks
    void on_phase(int ph, bool enter, bool in_region) {
        if (!monitors || in_region || !S) return;
        switch (ph) {
            case sim::PH_UPDATE_POS: if (enter) { check_refs("entry of update_nodes_positions", true); snap_for_integration(); } else if (std::uncaught_exceptions() == 0) check_integration(); break;
            case sim::PH_CONTACT_RUN: if (enter) check_refs("entry of contact phase", false); else check_refs("exit of contact phase", true); break;
            case sim::PH_DIVIDER_RUN: if (enter) before_division(); else after_division(); break;
            case sim::PH_MESH_WRITE: if (enter) check_refs("entry of mesh_writer::write", false); break;
            case sim::PH_REFINE_MESHES:
                if (enter) { vol_before_refine.clear(); for (auto& c : S->cells()) vol_before_refine[c->get_id()] = geometry(view_of(*c)).volume; }
                else if (std::uncaught_exceptions() == 0) for (auto& c : S->cells()) {
                    TopoOpts o; double vb = vol_before_refine.count(c->get_id()) ? vol_before_refine[c->get_id()] : -1; double lm = T.params.min_edge_len_;
                    o.volume_before = std::max(0.0, vb); o.t7_min_resolved = 50 * lm * lm * lm;
                    std::string e = check_topology(*c, o); if (!e.empty()) { std::ostringstream d; d << "after refine_meshes in iteration " << S->iteration() << " cell " << c->get_id() << ": " << e; res.fail("C01", e.substr(0, e.find(':')), d.str()); break; }
                }
                break;
            default: break;
        }
    }
    void on_region(bool start, int label, int team) {
        if (!monitors || !S) return;
        if (start) before_internal_forces();
        else if (label == sim::PH_APPLY_INTERNAL) after_internal_forces();
    }

    void execute() {
        T = build_tissue(pl);
#if DYNAMIC_MODEL_INDEX == 0
        // damp_x = damping * dt / (lightest node mass): lets plans reach the heavily damped regime (> 1: the friction term reverses the momentum) whatever the meshes weigh
        if (pl.p.count("damp_x")) { // node masses as they will be after the first refinement pass (mass per node = density * volume / nodes): a coarse generator mesh would otherwise be split in iteration 1 and push damping*dt/m far beyond the drawn value, into the regime where the scheme itself diverges
            { local_mesh_refiner pre(T.params.min_edge_len_, 3 * T.params.min_edge_len_, T.params.enable_edge_swap_operation_); for (auto& c : T.cells) if (!c->is_static()) { try { pre.refine_mesh(c); } catch (std::exception&) {} } }
            double mmin = 1e300; for (auto& c : T.cells) if (!c->is_static()) mmin = std::min(mmin, c->get_node_mass()); if (mmin < 1e300 && mmin > 0) T.params.damping_coefficient_ = pl.get("damp_x") * mmin / T.params.time_step_; }
#endif
        // (the ids the cells arrive with are replaced by the solver's constructor: only ids seen from there on count as used)
        int team = pl.geti("team", 1);
        S = std::make_unique<sim_solver>(T.params, T.cells, team, true, false);
        for (auto& c : S->cells()) { ever_ids.insert(c->get_id()); max_id_seen = std::max(max_id_seen, c->get_id()); if (monitors) check_random_props(*c, "after initialisation"); }
        sim::set_phase_cb([this](int ph, bool en, bool reg) { on_phase(ph, en, reg); });
        sim::set_region_cb([this](bool st, int label, int team) { on_region(st, label, team); });
        bool stop = false;
        for (const Op& op : pl.ops) {
            if (stop || (monitors && !res.viol.empty())) break;
            if (op.name == "iter") {
                int k = (int)op.arg(0, 1);
                for (int i = 0; i < k && !stop; i++) {
                    if (S->cells().empty()) { res.probes.hit("extinct"); stop = true; break; }
                    std::set<unsigned> before_ids; for (auto& c : S->cells()) before_ids.insert(c->get_id());
                    try { S->run_iteration(); }
                    catch (mesh_integrity_exception&) { res.probes.hit("iteration_threw_mesh_integrity"); stop = true; break; }
                    catch (std::exception& e) { res.probes.hit("iteration_threw_other"); res.fail("C10", "iteration.exception", std::string("run_iteration threw: ") + e.what()); stop = true; break; }
                    iters_done++; res.sim_time += T.params.time_step_;
                    { bool blown = false; for (auto& c : S->cells()) if (c->get_nb_of_nodes() > 5000) blown = true; if (blown) { res.probes.hit("blown_up_stop"); stop = true; break; } }
                    iter_hash.push_back(pop_hash());
                    if (pl.geti("diff", 0) && !may_interact) { std::vector<std::pair<V3, double>> bs; for (auto& c : S->cells()) { V3 m; int k = 0; for (auto& n : cell_tester::nodes(*c)) if (n.is_used()) { m += V3(n.pos()); k++; } if (!k) continue; m = m / (double)k; double rr = 0; for (auto& n : cell_tester::nodes(*c)) if (n.is_used()) rr = std::max(rr, (V3(n.pos()) - m).norm()); bs.push_back({m, rr}); }
                        double reach = 2 * std::max(pl.get("cut_adh", 0), pl.get("cut_rep", 0)) + pl.get("lmin", 0); for (size_t a = 0; a < bs.size(); a++) for (size_t b = a + 1; b < bs.size(); b++) if ((bs[a].first - bs[b].first).norm() < bs[a].second + bs[b].second + reach) may_interact = true; }
                    if (monitors) {
                        after_iteration(before_ids);
                        check_refs("end of iteration", false, false);
                        for (auto& c : S->cells()) { TopoOpts o; o.t7_volume = false; std::string e = check_topology(*c, o); if (!e.empty()) { std::ostringstream d; d << "after iteration " << S->iteration() << " cell " << c->get_id() << ": " << e; res.fail("C01", e.substr(0, e.find(':')), d.str()); break; } }
                        if (!res.viol.empty()) break;
                    }
                }
            } else if (op.name == "grow") { auto& L = S->cells(); if (!L.empty()) { cell& c = *L[(size_t)op.arg(0) % L.size()]; c.set_growth_rate(op.arg(1)); overridden.insert(c.get_id()); } }
            else if (op.name == "clockjump") sim::clock_jump((int64_t)op.arg(0));
        }
        sim::set_phase_cb(nullptr); sim::set_region_cb(nullptr);
        res.sim_iterations += iters_done;
        S.reset();     // destroy the solver (and with it the statistics writer / contact model) inside the run
    }
};

RunResult run_w1(const Plan& pl) {
    RunResult res; sim::RunConfig cfg = config_from(pl);
    // logical step budget (deterministic hang / mesh-explosion detection), scaled with the size of the plan: 6e8 covers 4 cells x 45 iterations many times over
    { double work = 0; for (const Op& op : pl.ops) if (op.name == "iter") work += op.arg(0, 1); work *= std::max(1, pl.geti("ncells", 1)); cfg.step_budget = (uint64_t)(6e8 * std::max(1.0, work / 135.0)); if (pl.p.count("step_budget")) cfg.step_budget = (uint64_t)pl.get("step_budget"); }
    sim::clear_faults(); sim::begin_run(cfg);
    std::vector<uint64_t> hashA; uint64_t nA = 0; bool interactA = false;
    {
        W1 w(pl, res, true);
        try { w.execute(); } catch (std::exception& e) { res.fail("C10", "harness.unexpected_exception", e.what()); }
        sim::set_phase_cb(nullptr); sim::set_region_cb(nullptr);
        hashA = w.iter_hash; nA = w.iters_done; interactA = w.may_interact;
    }
    res.st = sim::end_run();
    if (res.st.escaped_exception) res.fail("C15", "region.escaped_exception", "an exception left the body of a parallel region (std::terminate under libgomp)");
    Fnv log; for (auto h : hashA) log.add(h); res.fingerprint = log.h;
    res.nontrivial = nA >= 3;
    // C15(a): the same plan on a team of one, run to completion in order, must give the same trajectory
    if (pl.geti("diff", 0) && interactA) res.probes.hit("c15a_premise_cells_within_reach_skipped");     // C15(a) speaks of cells that do not interact
    if (pl.geti("diff", 0) && !interactA && res.viol.empty() && (pl.geti("team", 1) > 1)) {
        Plan ref = pl; ref.p["team"] = 1; ref.p["strategy"] = 0;
        RunResult r2; sim::RunConfig c2 = config_from(ref); c2.step_budget = cfg.step_budget; sim::begin_run(c2);
        std::vector<uint64_t> hashB;
        { W1 w(ref, r2, false); try { w.execute(); } catch (std::exception& e) { r2.fail("C10", "harness.unexpected_exception", e.what()); } sim::set_phase_cb(nullptr); sim::set_region_cb(nullptr); hashB = w.iter_hash; }
        sim::end_run();
        res.probes.hit("team_differential_runs");
        size_t n = std::min(hashA.size(), hashB.size());
        for (size_t i = 0; i < n; i++) if (hashA[i] != hashB[i]) { std::ostringstream d; d << "population after iteration " << (i + 1) << " on a team of " << pl.geti("team", 1) << " (strategy " << sim::strategy_name(pl.geti("strategy", 0)) << ") differs bitwise from the single-threaded run"; res.fail("C15", "team_independence", d.str()); break; }
        if (res.viol.empty() && hashA.size() != hashB.size()) res.fail("C15", "team_independence_length", "runs on different team sizes stopped after a different number of iterations");
    }
    return res;
}

// ---- generator
void place_cells(Plan& pl, sim::Rng& r, int n, int layout, double R, double cutoff) {
    // chain / cluster placement: each new cell is attached to a random previous one along a random direction
    std::vector<V3> ctr; std::vector<double> rad;
    for (int k = 0; k < n; k++) {
        double rk = R * r.uni(0.8, 1.2); V3 c;
        if (k > 0) {
            for (int tries = 0; tries < 50; tries++) {
                int j = (int)r.below(k); V3 dir = random_unit(r); double gap;
                if (layout == 0) gap = cutoff * r.uni(4, 10); else if (layout == 1) gap = cutoff * r.uni(0.1, 0.9); else gap = -R * r.uni(0.05, 0.3);
                double ext = layout == 0 ? 1.7 : 1.0;   // layout 0 promises separated cells: the generator shapes reach up to 1.6 radii
                c = ctr[j] + dir * (ext * (rad[j] + rk) + gap);
                bool ok = true; for (int q = 0; q < k; q++) if (q != j) { double dmin = (layout == 0) ? 1.7 * (rad[q] + rk) + 4 * cutoff : rad[q] + rk + (layout == 1 ? 0.05 * cutoff : -0.35 * R); if ((c - ctr[q]).norm() < dmin) ok = false; }
                if (ok) break;
            }
        }
        ctr.push_back(c); rad.push_back(rk);
        std::string pre = "c" + std::to_string(k) + "_";
        pl.p[pre + "r"] = rk; pl.p[pre + "x"] = c.x; pl.p[pre + "y"] = c.y; pl.p[pre + "z"] = c.z; pl.p[pre + "seed"] = (double)r.below(1000000);
    }
}

Plan gen_w1(uint64_t seed, const std::string& tier, const std::string& focus) {
    Plan pl; pl.workload = "w1"; pl.seed = seed; sim::Rng r(seed * 104729 + 71);
    bool thorough = tier == "thorough";
    const double R = 5e-6; double lmin = R * r.uni(0.18, 0.3); pl.p["lmin"] = lmin;
    double cutoff = lmin * r.uni(0.3, 0.7); pl.p["cut_adh"] = cutoff; pl.p["cut_rep"] = r.coin(0.7) ? cutoff : cutoff * r.uni(0.5, 1.5);
    pl.p["dt"] = 1e-7; pl.p["damping"] = 5e-10; pl.p["swap"] = r.coin(0.4);
    pl.p["min_vol"] = 1e-17; pl.p["min_vol_other"] = 1e-17;      // admissible parameter sets have a positive minimum volume (a zero target volume means infinite pressure)
    int n = r.range(1, thorough ? 6 : 4); int layout = (int)r.below(3);
    if (focus == "C15") { layout = 0; n = r.range(2, 6); pl.p["diff"] = 1; pl.p["adhesion"] = 0; }
    if (focus == "C03") { layout = r.coin(0.7) ? 1 : 2; n = r.range(2, 4); }
    if (focus == "C03" ? r.coin(0.5) : r.coin(0.1)) {   // every positive time step / damping / density
        static const double dts[] = {5e-8, 1e-7, 2e-7}; pl.p["dt"] = dts[r.below(3)];
        pl.p["damp_x"] = std::pow(10.0, r.uni(-2.5, 0.0)) * 1.5; if (r.coin(0.5)) { double rho = std::pow(10.0, r.uni(0.0, 3.7)); pl.p["density"] = rho; if (rho < 1000) pl.p["dt"] = pl.p["dt"] * std::sqrt(rho / 1000); }    // (the shipped parameter files use densities from 1.04 to 1000; a lighter cell needs a proportionally smaller step: stiffness*dt^2/mass is what the explicit scheme tolerates)
    }
    pl.p["ncells"] = n; pl.p["layout"] = layout;
    place_cells(pl, r, n, layout, R, cutoff);
    for (int k = 0; k < n; k++) {
        std::string pre = "c" + std::to_string(k) + "_";
        int kind = 0; double u = r.uni(); if (focus != "C15" && u > 0.7) kind = (u > 0.9) ? 4 : (u > 0.8 ? 1 : 2);
        if (focus == "C15" && u > 0.6) kind = (u > 0.8) ? 3 : 2;     // separated cells of several (moving) types: lumen, nucleus
        pl.p[pre + "kind"] = kind; pl.p[pre + "shape"] = (int)r.below(3); pl.p[pre + "res"] = r.coin(0.75) ? 1 : 2;
    }
    // growth / division / removal scenario
    double V0 = 4.18879 * R * R * R; int sc = (int)r.below(5);
    if (focus == "C03") sc = r.coin(0.5) ? 0 : 1;
    switch (sc) {
        case 0: break;                                                     // no growth
        case 1: pl.p["growth"] = r.uni(1e-11, 5e-11); pl.p["div_vol"] = V0 * r.uni(0.5, 1.05); break;     // divisions soon
        case 2: pl.p["growth"] = -r.uni(2e-11, 8e-11); pl.p["min_vol"] = V0 * r.uni(0.5, 0.95); break;     // shrink -> removal
        case 3: pl.p["growth"] = r.uni(1e-11, 4e-11); pl.p["growth_sigma"] = pl.p["growth"] * r.uni(0.1, 0.5); pl.p["div_vol"] = V0 * r.uni(0.6, 1.05); pl.p["div_sigma"] = pl.p["div_vol"] * r.uni(0.01, 0.1);
                if (r.coin(0.3)) { pl.p["growth"] = -r.uni(1e-11, 6e-11); pl.p["growth_sigma"] = -pl.p["growth"] * r.uni(0.03, 0.6); pl.p["min_vol"] = V0 * r.uni(0.4, 0.9); }   // a drawn growth rate may be negative, with or without the whole band below zero
                break;
        case 4: pl.p["growth"] = r.coin(0.5) ? r.uni(1e-11, 4e-11) : -r.uni(1e-12, 2e-11); pl.p["max_pressure"] = r.uni(5, 500); pl.p["min_vol"] = V0 * 0.3; break;
    }
    if (focus == "C15") { pl.p.erase("div_vol"); pl.p.erase("div_sigma"); }   // sibling daughters share their interface and interact: divisions on teams are compared in W3 (population after cell_divider::run)
    if (r.coin(0.3)) pl.p["init_pressure"] = r.uni(10, 300);
    if (r.coin(0.2)) pl.p["area_elasticity"] = 1e-15;
    if (r.coin(0.2)) pl.p["bending"] = 2e-18;
    if (r.coin(0.25)) { pl.p["bending_other"] = r.coin(0.5) ? 2e-18 : 0.0; if (r.coin(0.5)) pl.p["area_elasticity_other"] = r.coin(0.5) ? 1e-15 : 0.0; }   // per-type energies
    if (r.coin(0.2)) pl.p["angle_reg"] = 1e-18;
    if (r.coin(0.3)) pl.p["id_scheme"] = r.range(1, 2);
    pl.p["clock"] = (focus == "C15") ? 0 : (int)r.below(3);
    draw_schedule(pl, r, thorough ? 16 : 8);
    if (focus == "tsan") { pl.p["free_running"] = 1; pl.p["team"] = r.range(2, 8); pl.p["diff"] = 0; }
    if (focus == "valgrind") { pl.p["team"] = 1; pl.p["strategy"] = 0; }
    int total = (focus == "valgrind") ? r.range(4, 12) : r.range(8, thorough ? 90 : 45);
    int done = 0;
    while (done < total) {
        int k = std::min(total - done, r.range(3, 20)); pl.ops.push_back({"iter", {(double)k}}); done += k;
        if (r.coin(0.3)) pl.ops.push_back({"grow", {(double)r.below(8), r.coin(0.5) ? r.uni(2e-11, 1e-10) : -r.uni(2e-11, 1e-10)}});
        if (r.coin(0.15)) pl.ops.push_back({"clockjump", {(r.coin(0.5) ? 1.0 : -1.0) * std::pow(10.0, r.range(6, 14))}});
    }
    return pl;
}

std::vector<Plan> shrink_w1(const Plan& p) {
    std::vector<Plan> out;
    if (p.geti("team", 1) > 2) { Plan q = p; q.p["team"] = 2; out.push_back(q); }
    if (p.geti("team", 1) > 1 && !p.geti("diff", 0)) { Plan q = p; q.p["team"] = 1; q.p["strategy"] = 0; out.push_back(q); }
    if (p.geti("strategy", 0) != 0) { Plan q = p; q.p["strategy"] = 0; out.push_back(q); Plan q2 = p; q2.p["strategy"] = 1; out.push_back(q2); }
    if (p.geti("clock", 0) != 0) { Plan q = p; q.p["clock"] = 0; out.push_back(q); }
    int n = p.geti("ncells", 1); if (n > 1) { Plan q = p; q.p["ncells"] = n - 1; out.push_back(q); }
    for (size_t i = 0; i < p.ops.size(); i++) if (p.ops[i].name == "iter" && p.ops[i].arg(0) > 1) { Plan q = p; q.ops[i].a[0] = std::floor(p.ops[i].arg(0) / 2); out.push_back(q); Plan q2 = p; q2.ops[i].a[0] = p.ops[i].arg(0) - 1; out.push_back(q2); }
    for (const char* k : {"bending", "angle_reg", "area_elasticity", "init_pressure", "growth_sigma", "div_sigma"}) if (p.p.count(k)) { Plan q = p; q.p.erase(k); out.push_back(q); }
    return out;
}

Register reg_w1({"w1", gen_w1, run_w1, shrink_w1});
}
