// Harness basics: own vector math (independent of the repo's vec3), mesh generators,
// access to protected state through the friend-class seams, result/violation records.
#pragma once
#include <cmath>
#include <cstdint>
#include <cstdio>
#include <cstring>
#include <array>
#include <vector>
#include <map>
#include <set>
#include <string>
#include <sstream>
#include <memory>
#include <algorithm>
#include <functional>

#include "sim.hpp"
#include "cell.hpp"
#include "epithelial_cell.hpp"
#include "ecm_cell.hpp"
#include "lumen_cell.hpp"
#include "nucleus_cell.hpp"
#include "static_cell.hpp"
#include "local_mesh_refiner.hpp"

namespace hz {

// ---------------------------------------------------------------- vector math
struct V3 {
    double x = 0, y = 0, z = 0;
    V3() {}
    V3(double a, double b, double c) : x(a), y(b), z(c) {}
    explicit V3(const vec3& v) : x(v.dx()), y(v.dy()), z(v.dz()) {}
    V3 operator+(const V3& o) const { return {x + o.x, y + o.y, z + o.z}; }
    V3 operator-(const V3& o) const { return {x - o.x, y - o.y, z - o.z}; }
    V3 operator*(double s) const { return {x * s, y * s, z * s}; }
    V3 operator/(double s) const { return {x / s, y / s, z / s}; }
    V3& operator+=(const V3& o) { x += o.x; y += o.y; z += o.z; return *this; }
    double dot(const V3& o) const { return x * o.x + y * o.y + z * o.z; }
    V3 cross(const V3& o) const { return {y * o.z - z * o.y, z * o.x - x * o.z, x * o.y - y * o.x}; }
    double n2() const { return x * x + y * y + z * z; }
    double norm() const { return std::sqrt(n2()); }
    V3 unit() const { double n = norm(); return n > 0 ? (*this) / n : V3(); }
    vec3 v() const { return vec3(x, y, z); }
    double operator[](int i) const { return i == 0 ? x : (i == 1 ? y : z); }
};
inline bool bits_equal(double a, double b) { uint64_t x, y; memcpy(&x, &a, 8); memcpy(&y, &b, 8); return x == y; }
inline bool bits_equal(const V3& a, const V3& b) { return bits_equal(a.x, b.x) && bits_equal(a.y, b.y) && bits_equal(a.z, b.z); }

struct M33 {
    double m[3][3];
    static M33 identity() { M33 r; for (int i = 0; i < 3; i++) for (int j = 0; j < 3; j++) r.m[i][j] = (i == j); return r; }
    V3 operator*(const V3& v) const { return {m[0][0] * v.x + m[0][1] * v.y + m[0][2] * v.z, m[1][0] * v.x + m[1][1] * v.y + m[1][2] * v.z, m[2][0] * v.x + m[2][1] * v.y + m[2][2] * v.z}; }
    M33 operator*(const M33& o) const { M33 r; for (int i = 0; i < 3; i++) for (int j = 0; j < 3; j++) { r.m[i][j] = 0; for (int k = 0; k < 3; k++) r.m[i][j] += m[i][k] * o.m[k][j]; } return r; }
    static M33 rotation(V3 axis, double ang) {
        axis = axis.unit(); double c = std::cos(ang), s = std::sin(ang), t = 1 - c; M33 r;
        r.m[0][0] = t * axis.x * axis.x + c; r.m[0][1] = t * axis.x * axis.y - s * axis.z; r.m[0][2] = t * axis.x * axis.z + s * axis.y;
        r.m[1][0] = t * axis.x * axis.y + s * axis.z; r.m[1][1] = t * axis.y * axis.y + c; r.m[1][2] = t * axis.y * axis.z - s * axis.x;
        r.m[2][0] = t * axis.x * axis.z - s * axis.y; r.m[2][1] = t * axis.y * axis.z + s * axis.x; r.m[2][2] = t * axis.z * axis.z + c;
        return r;
    }
    static M33 scale(double a, double b, double c) { M33 r = identity(); r.m[0][0] = a; r.m[1][1] = b; r.m[2][2] = c; return r; }
};
inline V3 random_unit(sim::Rng& r) { for (;;) { V3 v(r.uni(-1, 1), r.uni(-1, 1), r.uni(-1, 1)); double n = v.n2(); if (n > 1e-4 && n <= 1) return v / std::sqrt(n); } }
inline M33 random_rotation(sim::Rng& r) { return M33::rotation(random_unit(r), r.uni(0, 6.283185307179586)); }

// ---------------------------------------------------------------- meshes
struct TriMesh {
    std::vector<V3> V;
    std::vector<std::array<unsigned, 3>> F;
    void apply(const M33& A, const V3& t) { for (auto& p : V) p = A * p + t; }
    void scale(double s) { for (auto& p : V) p = p * s; }
    void translate(const V3& t) { for (auto& p : V) p += t; }
    std::vector<double> flat_pos() const { std::vector<double> r; r.reserve(V.size() * 3); for (auto& p : V) { r.push_back(p.x); r.push_back(p.y); r.push_back(p.z); } return r; }
    std::vector<unsigned> flat_faces() const { std::vector<unsigned> r; r.reserve(F.size() * 3); for (auto& f : F) { r.push_back(f[0]); r.push_back(f[1]); r.push_back(f[2]); } return r; }
    double mean_edge() const { double s = 0; size_t n = 0; for (auto& f : F) for (int k = 0; k < 3; k++) { s += (V[f[k]] - V[f[(k + 1) % 3]]).norm(); n++; } return n ? s / n : 0; }
    double signed_volume() const { double v = 0; for (auto& f : F) v += V[f[0]].dot(V[f[1]].cross(V[f[2]])); return v / 6; }
    V3 bbox_min() const { V3 m(1e300, 1e300, 1e300); for (auto& p : V) { m.x = std::min(m.x, p.x); m.y = std::min(m.y, p.y); m.z = std::min(m.z, p.z); } return m; }
    V3 bbox_max() const { V3 m(-1e300, -1e300, -1e300); for (auto& p : V) { m.x = std::max(m.x, p.x); m.y = std::max(m.y, p.y); m.z = std::max(m.z, p.z); } return m; }
    V3 center() const { return (bbox_min() + bbox_max()) * 0.5; }
};

inline TriMesh icosphere(int level) {
    TriMesh m; const double t = (1 + std::sqrt(5.0)) / 2;
    const double vv[12][3] = {{-1, t, 0}, {1, t, 0}, {-1, -t, 0}, {1, -t, 0}, {0, -1, t}, {0, 1, t}, {0, -1, -t}, {0, 1, -t}, {t, 0, -1}, {t, 0, 1}, {-t, 0, -1}, {-t, 0, 1}};
    for (auto& v : vv) m.V.push_back(V3(v[0], v[1], v[2]).unit());
    const unsigned ff[20][3] = {{0, 11, 5}, {0, 5, 1}, {0, 1, 7}, {0, 7, 10}, {0, 10, 11}, {1, 5, 9}, {5, 11, 4}, {11, 10, 2}, {10, 7, 6}, {7, 1, 8}, {3, 9, 4}, {3, 4, 2}, {3, 2, 6}, {3, 6, 8}, {3, 8, 9}, {4, 9, 5}, {2, 4, 11}, {6, 2, 10}, {8, 6, 7}, {9, 8, 1}};
    for (auto& f : ff) m.F.push_back({f[0], f[1], f[2]});
    for (int l = 0; l < level; l++) {
        std::map<std::pair<unsigned, unsigned>, unsigned> mid; std::vector<std::array<unsigned, 3>> nf;
        auto mp = [&](unsigned a, unsigned b) { auto k = std::make_pair(std::min(a, b), std::max(a, b)); auto it = mid.find(k); if (it != mid.end()) return it->second; m.V.push_back(((m.V[a] + m.V[b]) * 0.5).unit()); return mid[k] = (unsigned)m.V.size() - 1; };
        for (auto& f : m.F) { unsigned a = mp(f[0], f[1]), b = mp(f[1], f[2]), c = mp(f[2], f[0]); nf.push_back({f[0], a, c}); nf.push_back({f[1], b, a}); nf.push_back({f[2], c, b}); nf.push_back({a, b, c}); }
        m.F = nf;
    }
    return m;
}

// surface of the cube [-1,1]^3 with k x k quads per side, each split in two triangles (outward)
inline TriMesh cube_mesh(int k) {
    TriMesh m; std::map<std::array<int, 3>, unsigned> id;
    auto vid = [&](int i, int j, int l) { std::array<int, 3> key{i, j, l}; auto it = id.find(key); if (it != id.end()) return it->second; m.V.push_back(V3(-1 + 2.0 * i / k, -1 + 2.0 * j / k, -1 + 2.0 * l / k)); return id[key] = (unsigned)m.V.size() - 1; };
    auto quad = [&](unsigned a, unsigned b, unsigned c, unsigned d, bool flip) { if (flip) { m.F.push_back({a, c, b}); m.F.push_back({a, d, c}); } else { m.F.push_back({a, b, c}); m.F.push_back({a, c, d}); } };
    for (int a = 0; a < k; a++) for (int b = 0; b < k; b++) {
        quad(vid(a, b, 0), vid(a + 1, b, 0), vid(a + 1, b + 1, 0), vid(a, b + 1, 0), true);    // z = -1, normal -z
        quad(vid(a, b, k), vid(a + 1, b, k), vid(a + 1, b + 1, k), vid(a, b + 1, k), false);   // z = +1
        quad(vid(a, 0, b), vid(a + 1, 0, b), vid(a + 1, 0, b + 1), vid(a, 0, b + 1), false);   // y = -1
        quad(vid(a, k, b), vid(a + 1, k, b), vid(a + 1, k, b + 1), vid(a, k, b + 1), true);    // y = +1
        quad(vid(0, a, b), vid(0, a + 1, b), vid(0, a + 1, b + 1), vid(0, a, b + 1), true);    // x = -1
        quad(vid(k, a, b), vid(k, a + 1, b), vid(k, a + 1, b + 1), vid(k, a, b + 1), false);   // x = +1
    }
    return m;
}

// capped prism: n-gon cross-section, `rings` segments along z in [-h,h]
inline TriMesh prism_mesh(int n, int rings, double h) {
    TriMesh m;
    for (int r = 0; r <= rings; r++) for (int i = 0; i < n; i++) { double a = 6.283185307179586 * i / n; m.V.push_back(V3(std::cos(a), std::sin(a), -h + 2 * h * r / rings)); }
    unsigned bot = (unsigned)m.V.size(); m.V.push_back(V3(0, 0, -h)); unsigned top = (unsigned)m.V.size(); m.V.push_back(V3(0, 0, h));
    for (int r = 0; r < rings; r++) for (int i = 0; i < n; i++) { unsigned a = r * n + i, b = r * n + (i + 1) % n, c = (r + 1) * n + (i + 1) % n, d = (r + 1) * n + i; m.F.push_back({a, b, c}); m.F.push_back({a, c, d}); }
    for (int i = 0; i < n; i++) { m.F.push_back({bot, (unsigned)((i + 1) % n), (unsigned)i}); m.F.push_back({top, (unsigned)(rings * n + i), (unsigned)(rings * n + (i + 1) % n)}); }
    return m;
}

enum Shape { SH_SPHERE = 0, SH_ELLIPSOID, SH_CUBE, SH_DENTED, SH_PRISM, SH_COUNT };

// unit-scale generator shape (radius ~1, centred at 0, outward oriented)
inline TriMesh gen_shape(int shape, int res, sim::Rng& r) {
    TriMesh m;
    switch (shape) {
        default:
        case SH_SPHERE: m = icosphere(res); break;
        case SH_ELLIPSOID: { m = icosphere(res); double a = r.uni(0.5, 1.6), b = r.uni(0.5, 1.6), c = r.uni(0.5, 1.6); m.apply(M33::scale(a, b, c), V3()); break; }
        case SH_CUBE: m = cube_mesh(res == 1 ? 3 : (res == 2 ? 5 : 8)); m.scale(0.8); break;
        case SH_DENTED: { m = icosphere(res); V3 p0 = random_unit(r); double d = r.uni(0.2, 0.5), w = r.uni(0.5, 0.9); for (auto& p : m.V) { double q = (p - p0).n2(); p = p * (1 - d * std::exp(-q / (w * w))); } break; }
        case SH_PRISM: { int n = res == 1 ? 6 : (res == 2 ? 10 : 16); m = prism_mesh(n, res == 1 ? 3 : (res == 2 ? 5 : 8), 1.0); // subdivide caps' long spokes is left to the refiner
            break; }
    }
    return m;
}

// ---------------------------------------------------------------- parameters
inline std::shared_ptr<cell_type_parameters> make_cell_type(int global_id, int n_face_types, double scale_len) {
    // physical scale of parameters_default_dynamic.xml when scale_len ~ 1e-5
    auto t = std::make_shared<cell_type_parameters>();
    static const char* names[] = {"epithelial", "ecm", "lumen", "nucleus", "static"};
    t->name_ = names[global_id % 5]; t->global_type_id_ = (short)global_id;
    t->mass_density_ = 1.0e3; t->bulk_modulus_ = 2.5e3; t->max_pressure_ = 1e20; t->initial_pressure_ = 0;
    t->area_elasticity_modulus_ = 0; t->avg_division_vol_ = 1e300; t->std_division_vol_ = 0;
    t->avg_growth_rate_ = 0; t->std_growth_rate_ = 0; t->min_vol_ = 0; t->angle_regularization_factor_ = 0;
    t->target_isoperimetric_ratio_ = 150; t->surface_coupling_max_curvature_ = 1e300;
    for (int i = 0; i < n_face_types; i++) {
        face_type_parameters f; f.name_ = "ft" + std::to_string(i); f.face_type_global_id_ = (short)i;
        f.surface_tension_ = 1e-3; f.adherence_strength_ = 0; f.repulsion_strength_ = 1e9; f.bending_modulus_ = 0; t->add_face_type(f);
    }
    return t;
}

// ---------------------------------------------------------------- probes / results
struct Probes { std::map<std::string, uint64_t> c; void hit(const std::string& k, uint64_t n = 1) { c[k] += n; } };

struct Violation { std::string prop, clause, detail; };

inline std::string jesc(const std::string& s) { std::string r; for (char ch : s) { if (ch == '"' || ch == '\\') { r += '\\'; r += ch; } else if (ch == '\n') r += "\\n"; else if ((unsigned char)ch < 0x20) r += ' '; else r += ch; } return r; }

struct Fnv { uint64_t h = 1469598103934665603ull; void add(uint64_t v) { for (int i = 0; i < 8; i++) { h ^= (v >> (8 * i)) & 0xff; h *= 1099511628211ull; } } void addd(double d) { uint64_t u; memcpy(&u, &d, 8); add(u); } void adds(const std::string& s) { for (char c : s) { h ^= (unsigned char)c; h *= 1099511628211ull; } } };

// ---------------------------------------------------------------- cell construction
inline cell_ptr make_cell(int kind, const TriMesh& m, unsigned id, cell_type_param_ptr type) {
    auto pos = m.flat_pos(); auto fac = m.flat_faces();
    switch (kind) {
        case 0: return std::make_shared<epithelial_cell>(pos, fac, id, type);
        case 1: return std::make_shared<ecm_cell>(pos, fac, id, type);
        case 2: return std::make_shared<lumen_cell>(pos, fac, id, type);
        case 3: return std::make_shared<nucleus_cell>(pos, fac, id, type);
        default: return std::make_shared<static_cell>(pos, fac, id, type);
    }
}

} // namespace hz

// ---------------------------------------------------------------- friend-class seams
// (names match the `friend class` test declarations in the repository headers)
class cell_tester {
public:
    static std::vector<node>& nodes(cell& c) { return c.node_lst_; }
    static std::vector<face>& faces(cell& c) { return c.face_lst_; }
    static const std::vector<unsigned>& free_nodes(const cell& c) { return c.free_node_queue_; }
    static const std::vector<unsigned>& free_faces(const cell& c) { return c.free_face_queue_; }
    static edge_set& edges(cell& c) { return c.edge_set_; }
    static vec3& pos(node& n) { return n.pos_; }
    static vec3& force(node& n) { return n.force_; }
#if DYNAMIC_MODEL_INDEX == 0
    static vec3& momentum(node& n) { return n.momentum_; }
#endif
    static unsigned& node_id(node& n) { return n.node_id_; }
    static bool& node_used(node& n) { return n.is_used_; }
#if CONTACT_MODEL_INDEX == 1
    static std::optional<std::pair<unsigned, unsigned>>& coupled(node& n) { return n.coupled_node_; }
    static double& sqd(node& n) { return n.squared_distance_to_closest_node_; }
#endif
#if CONTACT_MODEL_INDEX == 2
    static std::map<unsigned, std::pair<unsigned, double>>& coupled_map(node& n) { return n.coupled_nodes_map_; }
#endif
#if CONTACT_MODEL_INDEX == 1 || CONTACT_MODEL_INDEX == 2
    static double& curvature(node& n) { return n.curvature_; }
    static vec3& nnormal(node& n) { return n.normal_; }
#endif
    static unsigned fn1(const face& f) { return f.n1_id_; }
    static unsigned fn2(const face& f) { return f.n2_id_; }
    static unsigned fn3(const face& f) { return f.n3_id_; }
    static unsigned flocal(const face& f) { return f.local_face_id_; }
    static unsigned short& ftype(face& f) { return f.type_id_; }
    static const cell_ptr& fowner(const face& f) { return f.owner_cell_; }
    static double& growth_rate(cell& c) { return c.growth_rate_; }
    static double& division_volume(cell& c) { return c.division_volume_; }
    static double& target_volume(cell& c) { return c.target_volume_; }
    static double& volume(cell& c) { return c.volume_; }
    static double& area(cell& c) { return c.area_; }
    static double& pressure(cell& c) { return c.pressure_; }
    static bool& is_static(cell& c) { return c.is_static_; }
    static cell_type_param_ptr& type(cell& c) { return c.cell_type_; }
    static void translate(cell& c, const vec3& t) { c.translate(t); }
    static void apply_pressure(cell& c) { c.apply_pressure_on_surface(); }
    static void apply_tension(cell& c) { c.apply_surface_tension_and_membrane_elasticity(); }
    static void apply_bending(cell& c) { c.apply_bending_forces(); }
    static void update_target_volume(cell& c, double dt) { c.update_target_volume(dt); }
};
