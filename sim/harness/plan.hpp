// Run plans (explicit, serialisable, minimisable), run results, workload registry.
#pragma once
#include "common.hpp"

namespace hz {

struct Op { std::string name; std::vector<double> a; double arg(size_t i, double d = 0) const { return i < a.size() ? a[i] : d; } };

struct Plan {
    std::string workload;
    uint64_t seed = 0;
    std::map<std::string, double> p;      // scenario parameters (incl. team, strategy, clock policy)
    std::vector<Op> ops;                  // operations and faults, in order
    double get(const std::string& k, double d = 0) const { auto it = p.find(k); return it == p.end() ? d : it->second; }
    int geti(const std::string& k, int d = 0) const { return (int)std::llround(get(k, d)); }
    std::string to_text() const {
        std::ostringstream o; char b[64];
        o << "workload " << workload << "\nseed " << seed << "\n";
        for (auto& kv : p) { snprintf(b, sizeof b, "%.17g", kv.second); o << "param " << kv.first << " " << b << "\n"; }
        for (auto& op : ops) { o << "op " << op.name; for (double d : op.a) { snprintf(b, sizeof b, "%.17g", d); o << " " << b; } o << "\n"; }
        return o.str();
    }
    static bool from_text(const std::string& t, Plan& pl) {
        std::istringstream in(t); std::string line; pl = Plan();
        while (std::getline(in, line)) {
            if (line.empty() || line[0] == '#') continue;
            std::istringstream ls(line); std::string k; ls >> k;
            if (k == "workload") ls >> pl.workload;
            else if (k == "seed") ls >> pl.seed;
            else if (k == "param") { std::string n; double v; ls >> n >> v; pl.p[n] = v; }
            else if (k == "op") { Op op; ls >> op.name; std::string tok; while (ls >> tok) op.a.push_back(strtod(tok.c_str(), nullptr)); pl.ops.push_back(op); }
            else return false;
        }
        return !pl.workload.empty();
    }
    std::string brief() const { std::ostringstream o; o << workload << " seed=" << seed; for (auto& kv : p) o << " " << kv.first << "=" << kv.second; o << " ops=["; for (size_t i = 0; i < ops.size() && i < 12; i++) { o << (i ? "," : "") << ops[i].name; } if (ops.size() > 12) o << ",...(" << ops.size() << ")"; o << "]"; return o.str(); }
};

struct RunResult {
    std::vector<Violation> viol;
    Probes probes;
    uint64_t fingerprint = 0;     // hash of the event log of the run
    sim::Stats st;
    bool nontrivial = false;      // by the workload's stated rule
    uint64_t sim_iterations = 0;  // simulated solver iterations / refinement passes / divisions
    double sim_time = 0;          // simulated seconds covered
    std::map<std::string, uint64_t> faults_fired;
    void fail(const std::string& prop, const std::string& clause, const std::string& detail) { if (viol.size() < 8) viol.push_back({prop, clause, detail}); }
    bool has(const std::string& prop) const { for (auto& v : viol) if (v.prop == prop) return true; return false; }
};

struct Workload {
    std::string name;
    std::function<Plan(uint64_t seed, const std::string& tier, const std::string& focus)> gen;
    std::function<RunResult(const Plan&)> run;
    // simpler variants of a failing plan (beyond dropping ops), tried in order
    std::function<std::vector<Plan>(const Plan&)> shrink;
};

std::map<std::string, Workload>& registry();
struct Register { Register(const Workload& w) { registry()[w.name] = w; } };

// configure the simulator from plan parameters common to all workloads
inline sim::RunConfig config_from(const Plan& pl) {
    sim::RunConfig c; c.seed = pl.seed * 1000003ull + (uint64_t)pl.geti("sched_salt", 0);
    c.team = pl.geti("team", 1); c.strategy = pl.geti("strategy", 0); c.pct_depth = pl.geti("pct_depth", 2);
    c.rw_p = pl.get("rw_p", 1e-3); c.starve = pl.geti("starve", 0); c.clock_policy = pl.geti("clock", 0);
    c.step_budget = (uint64_t)pl.get("step_budget", 0); c.free_running = pl.geti("free_running", 0) != 0;
    return c;
}

inline void draw_schedule(Plan& pl, sim::Rng& r, int max_team) {
    int team = 1; double u = r.uni();
    if (u < 0.25) team = 1; else if (u < 0.55) team = 2; else if (u < 0.8) team = r.range(3, 4); else team = r.range(5, std::max(5, max_team));
    if (team > max_team) team = max_team;
    pl.p["team"] = team;
    int s = (int)r.below(5); pl.p["strategy"] = s;
    if (s == sim::PCT) pl.p["pct_depth"] = r.range(1, 6);
    if (s == sim::RW) { static const double ps[] = {1e-4, 3e-4, 1e-3, 3e-3, 1e-2}; pl.p["rw_p"] = ps[r.below(5)]; }
    if (s == sim::STARVE) pl.p["starve"] = r.range(0, std::max(0, team - 1));
}

} // namespace hz
