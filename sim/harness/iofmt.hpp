// Independent VTK / CSV parsers (oracle V) and the harness' own writers of valid input files.
#pragma once
#include "common.hpp"
#include <fstream>
#include <sys/stat.h>

namespace hz {

inline std::string slurp(const std::string& p) { std::ifstream in(p, std::ios::binary); std::stringstream ss; ss << in.rdbuf(); return ss.str(); }
inline void spit(const std::string& p, const std::string& s) { std::ofstream o(p, std::ios::binary); o << s; }

struct VtkArray { std::string name, type; size_t n = 0; std::vector<std::string> v; };
struct VtkDoc {
    std::string err;
    size_t npoints = 0; std::vector<double> pts;
    size_t ncells = 0, nints = 0; std::vector<std::vector<long>> cells;   // per cell: the integers after the leading count
    size_t ntypes = 0; std::vector<long> types;
    size_t celldata_n = 0; std::vector<VtkArray> cell_arrays; size_t pointdata_n = 0; std::vector<VtkArray> point_arrays;
    const VtkArray* array(const std::string& n) const { for (auto& a : cell_arrays) if (a.name == n) return &a; return nullptr; }
};

inline bool is_number(const std::string& t, double* out = nullptr) { if (t.empty()) return false; char* e = nullptr; double d = strtod(t.c_str(), &e); if (*e != 0) return false; if (out) *out = d; return true; }
inline bool is_int(const std::string& t, long* out = nullptr) { if (t.empty()) return false; char* e = nullptr; long d = strtol(t.c_str(), &e, 10); if (*e != 0) return false; if (out) *out = d; return true; }

// strict parser of the subset of legacy VTK that the simulator writes: every declared count must match what follows
inline VtkDoc parse_vtk(const std::string& text) {
    VtkDoc d; std::vector<std::string> tok; { std::istringstream in(text); std::string t; while (in >> t) tok.push_back(t); }
    size_t i = 0; auto fail = [&](const std::string& m) { d.err = m + " (token " + std::to_string(i) + ")"; return d; };
    static const char* head[] = {"#", "vtk", "DataFile", "Version", "4.2", "vtk", "output", "ASCII", "DATASET", "UNSTRUCTURED_GRID"};
    for (const char* h : head) { if (i >= tok.size() || tok[i] != h) return fail(std::string("header: expected '") + h + "'"); i++; }
    long n;
    if (i + 2 >= tok.size() || tok[i] != "POINTS" || !is_int(tok[i + 1], &n) || n < 0) return fail("POINTS line"); d.npoints = (size_t)n; i += 3;
    for (size_t k = 0; k < d.npoints * 3; k++) { double v; if (i >= tok.size() || !is_number(tok[i], &v)) return fail("POINTS declares " + std::to_string(d.npoints) + " points but coordinate " + std::to_string(k) + " is missing or not a number"); if (!std::isfinite(v)) return fail("non-finite coordinate"); d.pts.push_back(v); i++; }
    long nc, ni;
    if (i + 2 >= tok.size() || tok[i] != "CELLS" || !is_int(tok[i + 1], &nc) || !is_int(tok[i + 2], &ni)) return fail("CELLS line (or more coordinates than POINTS declares)"); d.ncells = nc; d.nints = ni; i += 3;
    size_t used = 0;
    for (long c = 0; c < nc; c++) { long k; if (i >= tok.size() || !is_int(tok[i], &k) || k < 0) return fail("CELLS: leading count of cell " + std::to_string(c)); i++; used++; std::vector<long> v; for (long q = 0; q < k; q++) { long x; if (i >= tok.size() || !is_int(tok[i], &x)) return fail("CELLS: cell " + std::to_string(c) + " declares " + std::to_string(k) + " integers but fewer follow"); v.push_back(x); i++; used++; } d.cells.push_back(v); }
    if ((long)used != ni) return fail("CELLS declares " + std::to_string(ni) + " integers but the " + std::to_string(nc) + " cells use " + std::to_string(used));
    long nt; if (i + 1 >= tok.size() || tok[i] != "CELL_TYPES" || !is_int(tok[i + 1], &nt)) return fail("CELL_TYPES line (or more integers than CELLS declares)"); d.ntypes = nt; i += 2;
    if (nt != nc) return fail("CELL_TYPES count differs from CELLS count");
    for (long c = 0; c < nt; c++) { long x; if (i >= tok.size() || !is_int(tok[i], &x)) return fail("CELL_TYPES entries"); d.types.push_back(x); i++; }
    while (i < tok.size()) {
        bool pd = tok[i] == "POINT_DATA"; if (tok[i] != "CELL_DATA" && !pd) return fail("unexpected token '" + tok[i] + "'");
        long dn; if (i + 1 >= tok.size() || !is_int(tok[i + 1], &dn)) return fail("CELL_DATA count"); i += 2; (pd ? d.pointdata_n : d.celldata_n) = dn;
        long nf; if (i + 2 >= tok.size() || tok[i] != "FIELD" || !is_int(tok[i + 2], &nf)) return fail("FIELD line"); i += 3;
        for (long f = 0; f < nf; f++) { VtkArray a; long comps, an; if (i + 3 >= tok.size() || !is_int(tok[i + 1], &comps) || !is_int(tok[i + 2], &an)) return fail("array header " + std::to_string(f)); a.name = tok[i]; a.n = an; a.type = tok[i + 3]; i += 4; if (comps != 1 || an != dn) return fail("array '" + a.name + "' declares " + std::to_string(an) + " values for " + std::to_string(dn) + " cells");
            for (long q = 0; q < an; q++) { if (i >= tok.size() || !is_number(tok[i])) return fail("array '" + a.name + "' has fewer values than declared"); a.v.push_back(tok[i]); i++; } (pd ? d.point_arrays : d.cell_arrays).push_back(a); }
    }
    return d;
}

// ------------------------------------------------------------------ harness writers of valid inputs
struct InCell { TriMesh m; int type; std::vector<std::vector<unsigned>> polys; };   // polys empty -> triangles of m

inline std::string write_vtk(const std::vector<InCell>& cells, const char* fmt = "%.9g") {
    std::ostringstream o; o << "# vtk DataFile Version 4.2\nvtk output\nASCII\nDATASET UNSTRUCTURED_GRID\n";
    size_t np = 0; for (auto& c : cells) np += c.m.V.size(); o << "POINTS " << np << " double\n";
    char b[64]; size_t k = 0; for (auto& c : cells) for (auto& p : c.m.V) for (int q = 0; q < 3; q++) { snprintf(b, sizeof b, fmt, p[q]); o << b << ((++k % 9 == 0) ? "\n" : " "); }
    o << "\n"; std::vector<std::string> lines; size_t total = 0, off = 0;
    for (auto& c : cells) { std::ostringstream l; std::vector<std::vector<unsigned>> F = c.polys; if (F.empty()) for (auto& t : c.m.F) F.push_back({t[0], t[1], t[2]}); size_t cnt = 1; for (auto& f : F) cnt += 1 + f.size(); l << cnt << " " << F.size(); for (auto& f : F) { l << " " << f.size(); for (unsigned v : f) l << " " << v + off; } lines.push_back(l.str()); total += cnt + 1; off += c.m.V.size(); }
    o << "CELLS " << cells.size() << " " << total << "\n"; for (auto& l : lines) o << l << " \n";
    o << "\nCELL_TYPES " << cells.size() << "\n"; for (size_t i = 0; i < cells.size(); i++) o << "42\n";
    o << "\nCELL_DATA " << cells.size() << "\nFIELD FieldData 1\ncell_type_id 1 " << cells.size() << " int\n"; for (auto& c : cells) o << c.type << " "; o << "\n";
    return o.str();
}

struct XmlSpec { std::string mesh_path, out_path; int triangulate = 0, swap = 0; double damping = 5e-10, duration = 1e-6, sampling = 1e-6, dt = 1e-7, lmin = 1e-6, cut_adh = 5e-7, cut_rep = 5e-7; int ntypes = 5; int nft = 3; double growth = 0, div_vol = 1e300, min_vol = 1e-18; };

inline std::string write_xml(const XmlSpec& s) {
    std::ostringstream o; o.precision(12);
    o << "<?xml version=\"1.0\"?>\n<numerical_parameters>\n  <input_mesh_file_path>" << s.mesh_path << "</input_mesh_file_path>\n  <output_mesh_folder_path>" << s.out_path << "</output_mesh_folder_path>\n"
      << "  <perform_initial_triangulation>" << s.triangulate << "</perform_initial_triangulation>\n  <enable_edge_swap_operation>" << s.swap << "</enable_edge_swap_operation>\n  <damping_coefficient>" << s.damping << "</damping_coefficient>\n"
      << "  <simulation_duration>" << s.duration << "</simulation_duration>\n  <sampling_period>" << s.sampling << "</sampling_period>\n  <time_step>" << s.dt << "</time_step>\n  <min_edge_length>" << s.lmin << "</min_edge_length>\n"
      << "  <contact_cutoff_adhesion>" << s.cut_adh << "</contact_cutoff_adhesion>\n  <contact_cutoff_repulsion>" << s.cut_rep << "</contact_cutoff_repulsion>\n</numerical_parameters>\n<cell_types>\n";
    static const char* names[] = {"epithelial", "ecm", "lumen", "nucleus", "static"};
    for (int k = 0; k < s.ntypes; k++) {
        o << "  <cell_type>\n    <cell_type_name>" << names[k % 5] << "</cell_type_name>\n    <global_cell_id>" << k << "</global_cell_id>\n    <cell_mass_density>1.0e3</cell_mass_density>\n    <cell_bulk_modulus>2.5e3</cell_bulk_modulus>\n"
          << "    <max_inner_pressure>" << (k == 0 ? "2.5e3" : "INF") << "</max_inner_pressure>\n    <avg_growth_rate>" << (k == 0 ? s.growth : 0.0) << "</avg_growth_rate>\n    <std_growth_rate>0</std_growth_rate>\n    <target_isoperimetric_ratio>150</target_isoperimetric_ratio>\n"
          << "    <area_elasticity_modulus>0</area_elasticity_modulus>\n    <angle_regularization_factor>0</angle_regularization_factor>\n    <avg_division_volume>"; if (k == 0 && s.div_vol < 1e299) o << s.div_vol; else o << "INF"; o << "</avg_division_volume>\n    <std_division_volume>0</std_division_volume>\n"
          << "    <surface_coupling_max_curvature>2.5e6</surface_coupling_max_curvature>\n    <min_vol>" << s.min_vol << "</min_vol>\n    <face_types>\n";
        int nf = (k == 0) ? s.nft : 1;
        for (int f = 0; f < nf; f++) o << "      <face_type>\n        <global_face_id>" << (k == 0 ? f : 2 + k) << "</global_face_id>\n        <face_type_name>ft" << f << "</face_type_name>\n        <adherence_strength>1e9</adherence_strength>\n        <repulsion_strength>1e9</repulsion_strength>\n        <surface_tension>1e-3</surface_tension>\n        <bending_modulus>0</bending_modulus>\n      </face_type>\n";
        o << "    </face_types>\n  </cell_type>\n";
    }
    o << "</cell_types>\n";
    return o.str();
}

} // namespace hz
