// Tissue builder (cells built directly from generated meshes, like simulation_initializer does
// after reading its files) and sim_solver, the harness' view on the real solver.
#pragma once
#include "plan.hpp"
#include "oracles.hpp"
#include "solver.hpp"

namespace hz {
extern std::string g_scratch;

// derived only to reach the protected members; run_iteration/run are the real ones
class sim_solver : public solver {
public:
    using solver::solver;
    std::vector<cell_ptr>& cells() { return cell_lst_; }
    const global_simulation_parameters& params() const { return sim_parameters_; }
    double time() const { return time_integrator_ptr_->get_simulation_time(); }
    unsigned iteration() const { return iteration_; }
    unsigned file_number() const { return file_number_; }
    unsigned max_cell_id() const { return max_cell_id_; }
    local_mesh_refiner& lmr() { return *lmr_ptr_; }
    contact_model_abstract& contact() { return *contact_model_ptr_; }
};

struct CellSpec { int kind = 0, shape = 0, res = 1; double radius = 5e-6; V3 center; uint64_t mesh_seed = 1; };

struct Tissue {
    std::vector<cell_ptr> cells;
    std::vector<CellSpec> specs;
    global_simulation_parameters params;
    std::vector<cell_type_param_ptr> types;     // index = global type id 0..4
    std::vector<double> v0;                     // initial volume per cell (oracle)
};

// parameters of the plan -> physical-scale type table (values of parameters_default_dynamic.xml)
inline std::vector<cell_type_param_ptr> make_types(const Plan& pl) {
    std::vector<cell_type_param_ptr> t(5);
    for (int k = 0; k < 5; k++) {
        int nft = (k == 0) ? std::max(3, pl.geti("nft", 3)) : std::max(1, pl.geti("nft_other", 1));
        t[k] = make_cell_type(k, nft, 1e-5);
        t[k]->max_pressure_ = pl.get("max_pressure", 1e300);
        if (pl.p.count("density")) t[k]->mass_density_ = pl.get("density");
        t[k]->area_elasticity_modulus_ = (k > 0 && pl.p.count("area_elasticity_other")) ? pl.get("area_elasticity_other") : pl.get("area_elasticity", 0);
        t[k]->angle_regularization_factor_ = pl.get("angle_reg", 0);
        t[k]->surface_coupling_max_curvature_ = pl.get("max_curvature", 2.5e6);
        t[k]->target_isoperimetric_ratio_ = 150;
        for (size_t f = 0; f < t[k]->face_types_.size(); f++) {
            auto& ft = t[k]->face_types_[f];
            ft.face_type_global_id_ = (short)(k == 0 ? f : (k == 1 ? 3 : (k == 2 ? 4 : (k == 3 ? 5 : 6))));
            ft.surface_tension_ = pl.get("tension", 1e-3) * (1.0 - 0.2 * (double)f);
            ft.repulsion_strength_ = pl.get("repulsion", 1e9);
            ft.adherence_strength_ = pl.get("adhesion", 1e9);
            ft.bending_modulus_ = (k > 0 && pl.p.count("bending_other")) ? pl.get("bending_other") : pl.get("bending", 0);   // cell types may differ in which energies they have
        }
    }
    // epithelial growth / division / removal law parameters
    t[0]->avg_growth_rate_ = pl.get("growth", 0); t[0]->std_growth_rate_ = pl.get("growth_sigma", 0);
    t[0]->avg_division_vol_ = pl.get("div_vol", 1e300); t[0]->std_division_vol_ = pl.get("div_sigma", 0);
    t[0]->min_vol_ = pl.get("min_vol", 0);
    t[0]->initial_pressure_ = pl.get("init_pressure", 0);
    for (int k = 1; k < 5; k++) { t[k]->min_vol_ = pl.get("min_vol_other", 0); t[k]->avg_growth_rate_ = pl.get("growth_other", 0); t[k]->initial_pressure_ = pl.get("init_pressure", 0); }
    t[1]->bulk_modulus_ = 2.5e3;
    return t;
}

inline global_simulation_parameters make_params(const Plan& pl, const std::string& out_dir) {
    global_simulation_parameters p;
    p.output_folder_path_ = out_dir; p.input_mesh_path_ = "";
    p.perform_initial_triangulation_ = false; p.enable_edge_swap_operation_ = pl.geti("swap", 0) != 0;
    p.damping_coefficient_ = pl.get("damping", 5e-10); p.simulation_duration_ = pl.get("duration", 1.0);
    p.sampling_period_ = pl.get("sampling", 1e-6); p.time_step_ = pl.get("dt", 1e-7);
    p.min_edge_len_ = pl.get("lmin", 1e-6);
    p.contact_cutoff_adhesion_ = pl.get("cut_adh", 5e-7); p.contact_cutoff_repulsion_ = pl.get("cut_rep", 5e-7);
    return p;
}

// cell k: parameters c<k>_kind, c<k>_shape, c<k>_res, c<k>_r, c<k>_x/y/z, c<k>_seed
inline Tissue build_tissue(const Plan& pl, const V3& global_shift = V3()) {
    Tissue T; T.types = make_types(pl);
    T.params = make_params(pl, g_scratch + "/out");
    int n = pl.geti("ncells", 1);
    for (int k = 0; k < n; k++) {
        std::string pre = "c" + std::to_string(k) + "_";
        CellSpec s; s.kind = pl.geti(pre + "kind", 0); s.shape = pl.geti(pre + "shape", 0); s.res = pl.geti(pre + "res", 1);
        s.radius = pl.get(pre + "r", 5e-6); s.center = V3(pl.get(pre + "x", 0), pl.get(pre + "y", 0), pl.get(pre + "z", 0)); s.mesh_seed = (uint64_t)pl.get(pre + "seed", k + 1);
        sim::Rng sr(s.mesh_seed * 7 + pl.seed);
        TriMesh m = gen_shape(s.shape, s.res, sr);
        if (pl.geti(pre + "rot", 1)) m.apply(random_rotation(sr), V3());
        double jit = pl.get("jitter", 0); if (jit > 0) { double e = m.mean_edge(); for (auto& p : m.V) p += random_unit(sr) * (jit * e * sr.uni()); }   // break the symmetry of the generator shapes
        m.scale(s.radius); m.translate(s.center + global_shift);
        // ids the cells arrive with (the solver renumbers them): 0 = list position, 1 = with gaps, 2 = reversed
        int ids = pl.geti("id_scheme", 0); unsigned cid = ids == 1 ? (unsigned)(3 * k + 2) : (ids == 2 ? (unsigned)(n - 1 - k) : (unsigned)k);
        cell_ptr c = make_cell(s.kind, m, cid, T.types[s.kind]);
        c->initialize_cell_properties();      // throws for an invalid generated mesh: generator bug, propagates
        T.cells.push_back(c); T.specs.push_back(s);
        T.v0.push_back(geometry(view_of(*c)).volume);
    }
    return T;
}

// population fingerprint: ids, local ids, node positions/momenta bit patterns, faces, labels, couplings
inline uint64_t hash_population(const std::vector<cell_ptr>& cells) {
    Fnv h; h.add(cells.size());
    for (auto& c : cells) {
        hash_cell(h, *c);
#if CONTACT_MODEL_INDEX == 1
        for (auto& n : cell_tester::nodes(*c)) if (n.is_used()) { auto& cp = cell_tester::coupled(n); h.add(cp.has_value()); if (cp) { h.add(cp->first); h.add(cp->second); } }
#endif
    }
    return h.h;
}

} // namespace hz
