// Oracles T (topology from the triangle list alone) and G (geometry), written
// independently of the code they judge.
#pragma once
#include "common.hpp"
#include <unordered_map>

namespace hz {

struct CellView {            // plain snapshot of a cell's mesh, taken through the friend seam
    std::vector<V3> pos; std::vector<char> nused;
    std::vector<std::array<unsigned, 3>> tri; std::vector<char> fused; std::vector<unsigned short> ftype;
    std::vector<V3> mom;
};

inline CellView view_of(cell& c) {
    CellView v; auto& N = cell_tester::nodes(c); auto& F = cell_tester::faces(c);
    v.pos.reserve(N.size()); v.nused.reserve(N.size());
    for (auto& n : N) { v.pos.push_back(V3(n.pos())); v.nused.push_back(n.is_used());
#if DYNAMIC_MODEL_INDEX == 0
        v.mom.push_back(V3(n.momentum()));
#else
        v.mom.push_back(V3());
#endif
    }
    for (auto& f : F) { v.tri.push_back({cell_tester::fn1(f), cell_tester::fn2(f), cell_tester::fn3(f)}); v.fused.push_back(f.is_used()); v.ftype.push_back(f.get_local_face_type_id()); }
    return v;
}

struct Geo { double volume = 0, area = 0; V3 centroid_area, bmin, bmax; };

// signed volume about the vertex mean (avoids cancellation far from the origin), total area
inline Geo geometry(const CellView& v) {
    Geo g; V3 mean; size_t nl = 0; g.bmin = V3(1e300, 1e300, 1e300); g.bmax = V3(-1e300, -1e300, -1e300);
    for (size_t i = 0; i < v.pos.size(); i++) if (v.nused[i]) { mean += v.pos[i]; nl++; g.bmin.x = std::min(g.bmin.x, v.pos[i].x); g.bmin.y = std::min(g.bmin.y, v.pos[i].y); g.bmin.z = std::min(g.bmin.z, v.pos[i].z); g.bmax.x = std::max(g.bmax.x, v.pos[i].x); g.bmax.y = std::max(g.bmax.y, v.pos[i].y); g.bmax.z = std::max(g.bmax.z, v.pos[i].z); }
    if (nl) mean = mean / (double)nl;
    V3 ca;
    for (size_t i = 0; i < v.tri.size(); i++) if (v.fused[i]) {
        const auto& t = v.tri[i]; if (t[0] >= v.pos.size() || t[1] >= v.pos.size() || t[2] >= v.pos.size()) continue;
        V3 a = v.pos[t[0]] - mean, b = v.pos[t[1]] - mean, c = v.pos[t[2]] - mean;
        g.volume += a.dot(b.cross(c)) / 6.0;
        double ar = 0.5 * (b - a).cross(c - a).norm(); g.area += ar; ca += (a + b + c) * (ar / 3.0);
    }
    g.centroid_area = g.area > 0 ? ca / g.area + mean : mean;
    return g;
}

// ---- oracle T. Returns "" or "<clause>: detail". level: which clauses to run.
struct TopoOpts {
    bool t6_bookkeeping = true; bool t8_all_faces = false; bool t7_volume = true; std::set<unsigned> t8_faces;
    // T7 premise: orientation is judged for cells that the mesh resolves. If volume_before >= 0 is given,
    // a non-positive volume counts only when the cell enclosed at least t7_min_resolved (e.g. 50 l_min^3)
    // before the operation, or when the sign flipped to less than -half of the previous volume (inside-out)
    // for a cell that enclosed at least a fifth of that.
    double volume_before = -1; double t7_min_resolved = 0;
};

inline std::string check_topology(cell& c, const TopoOpts& o = TopoOpts()) {
    auto& N = cell_tester::nodes(c); auto& F = cell_tester::faces(c);
    const size_t nn = N.size(), nf = F.size();
    std::ostringstream e;
    // T1/T2
    std::vector<char> referenced(nn, 0); size_t live_faces = 0, live_nodes = 0;
    for (size_t i = 0; i < nf; i++) {
        if (!F[i].is_used()) continue; live_faces++;
        unsigned a = cell_tester::fn1(F[i]), b = cell_tester::fn2(F[i]), d = cell_tester::fn3(F[i]);
        if (a >= nn || b >= nn || d >= nn) { e << "T2: face " << i << " refers to node index out of range"; return e.str(); }
        if (a == b || b == d || a == d) { e << "T1: face " << i << " repeats a node (" << a << "," << b << "," << d << ")"; return e.str(); }
        if (!N[a].is_used() || !N[b].is_used() || !N[d].is_used()) { e << "T2: live face " << i << " refers to a dead node"; return e.str(); }
        referenced[a] = referenced[b] = referenced[d] = 1;
    }
    for (size_t i = 0; i < nn; i++) { if (N[i].is_used()) { live_nodes++; if (!referenced[i]) { e << "T2: live node " << i << " is not referenced by any live face"; return e.str(); } } }
    // T3 directed edges (sorted vector instead of a hash map: this runs after every operation)
    std::vector<std::pair<uint64_t, unsigned>> dir; dir.reserve(live_faces * 3);
    auto key = [](unsigned a, unsigned b) { return ((uint64_t)a << 32) | b; };
    for (size_t i = 0; i < nf; i++) {
        if (!F[i].is_used()) continue;
        unsigned t[3] = {cell_tester::fn1(F[i]), cell_tester::fn2(F[i]), cell_tester::fn3(F[i])};
        for (int k = 0; k < 3; k++) dir.push_back({key(t[k], t[(k + 1) % 3]), (unsigned)i});
    }
    std::sort(dir.begin(), dir.end());
    for (size_t i = 1; i < dir.size(); i++) if (dir[i].first == dir[i - 1].first) { e << "T3: directed edge " << (dir[i].first >> 32) << "->" << (unsigned)dir[i].first << " used by faces " << dir[i - 1].second << " and " << dir[i].second; return e.str(); }
    auto find_dir = [&](uint64_t k) -> const std::pair<uint64_t, unsigned>* { auto it = std::lower_bound(dir.begin(), dir.end(), std::make_pair(k, 0u)); return (it != dir.end() && it->first == k) ? &*it : nullptr; };
    for (auto& kv : dir) { unsigned a = kv.first >> 32, b = (unsigned)kv.first; if (!find_dir(key(b, a))) { e << "T3: edge " << a << "->" << b << " of face " << kv.second << " has no opposite half-edge (open or inconsistently oriented)"; return e.str(); } }
    size_t E = dir.size() / 2;
    // T4
    long chi = (long)live_nodes - (long)E + (long)live_faces;
    if (chi != 2) { e << "T4: V-E+F = " << chi << " (V=" << live_nodes << ",E=" << E << ",F=" << live_faces << ")"; return e.str(); }
    // T5: vertex links are single cycles, one component
    {
        std::vector<std::pair<uint64_t, unsigned>> nxt; nxt.reserve(live_faces * 3); std::vector<unsigned> deg(nn, 0), start(nn, 0);
        for (size_t i = 0; i < nf; i++) { if (!F[i].is_used()) continue; unsigned t[3] = {cell_tester::fn1(F[i]), cell_tester::fn2(F[i]), cell_tester::fn3(F[i])};
            for (int k = 0; k < 3; k++) { unsigned v = t[k], a = t[(k + 1) % 3], b = t[(k + 2) % 3]; nxt.push_back({key(v, a), b}); deg[v]++; start[v] = a; } }
        std::sort(nxt.begin(), nxt.end());
        auto find_nxt = [&](uint64_t k, unsigned& out) { auto it = std::lower_bound(nxt.begin(), nxt.end(), std::make_pair(k, 0u)); if (it != nxt.end() && it->first == k) { out = it->second; return true; } return false; };
        for (size_t v = 0; v < nn; v++) { if (!N[v].is_used()) continue; unsigned a = start[v], cnt = 0, cur = a; do { unsigned nx; if (!find_nxt(key((unsigned)v, cur), nx)) break; cur = nx; cnt++; } while (cur != a && cnt <= deg[v]); if (cur != a || cnt != deg[v]) { e << "T5: link of vertex " << v << " is not a single cycle (deg " << deg[v] << ", walked " << cnt << ")"; return e.str(); } }
        std::vector<unsigned> par(nn); for (size_t i = 0; i < nn; i++) par[i] = (unsigned)i;
        auto fnd = [&](unsigned x) { while (par[x] != x) { par[x] = par[par[x]]; x = par[x]; } return x; };
        for (auto& kv : dir) { unsigned a = fnd(kv.first >> 32), b = fnd((unsigned)kv.first); if (a != b) par[a] = b; }
        int comps = 0; for (size_t v = 0; v < nn; v++) if (N[v].is_used() && fnd((unsigned)v) == v) comps++;
        if (comps != 1) { e << "T5: surface has " << comps << " connected components"; return e.str(); }
    }
    // T6 bookkeeping
    if (o.t6_bookkeeping) {
        if (c.get_nb_of_nodes() != live_nodes) { e << "T6: get_nb_of_nodes()=" << c.get_nb_of_nodes() << " but " << live_nodes << " live nodes"; return e.str(); }
        if (c.get_nb_of_faces() != live_faces) { e << "T6: get_nb_of_faces()=" << c.get_nb_of_faces() << " but " << live_faces << " live faces"; return e.str(); }
        std::vector<char> seen(nn, 0);
        for (unsigned id : cell_tester::free_nodes(c)) { if (id >= nn) { e << "T6: free node queue holds out-of-range id " << id; return e.str(); } if (N[id].is_used()) { e << "T6: free node queue holds live node " << id; return e.str(); } if (seen[id]) { e << "T6: free node queue holds " << id << " twice"; return e.str(); } seen[id] = 1; }
        for (size_t i = 0; i < nn; i++) if (!N[i].is_used() && !seen[i]) { e << "T6: dead node slot " << i << " missing from the free queue"; return e.str(); }
        std::vector<char> seenf(nf, 0);
        for (unsigned id : cell_tester::free_faces(c)) { if (id >= nf) { e << "T6: free face queue holds out-of-range id " << id; return e.str(); } if (F[id].is_used()) { e << "T6: free face queue holds live face " << id; return e.str(); } if (seenf[id]) { e << "T6: free face queue holds " << id << " twice"; return e.str(); } seenf[id] = 1; }
        for (size_t i = 0; i < nf; i++) if (!F[i].is_used() && !seenf[i]) { e << "T6: dead face slot " << i << " missing from the free queue"; return e.str(); }
        for (size_t i = 0; i < nn; i++) if (N[i].is_used() && N[i].get_local_id() != i) { e << "T6: node in slot " << i << " has id " << N[i].get_local_id(); return e.str(); }
        for (size_t i = 0; i < nf; i++) if (F[i].is_used()) { if (F[i].get_local_id() != i) { e << "T6: face in slot " << i << " has id " << F[i].get_local_id(); return e.str(); } if (cell_tester::fowner(F[i]).get() != &c) { e << "T6: face " << i << " owner_cell is not its cell"; return e.str(); } }
        auto& ES = cell_tester::edges(c);
        if (ES.size() != E) { e << "T6: edge set has " << ES.size() << " edges, triangle list has " << E; return e.str(); }
        for (const edge& ed : ES) {
            unsigned a = ed.n1(), b = ed.n2();
            if (!ed.is_manifold()) { e << "T6: stored edge (" << a << "," << b << ") has fewer than two faces"; return e.str(); }
            auto i1 = find_dir(key(a, b)), i2 = find_dir(key(b, a));
            if (!i1 || !i2) { e << "T6: stored edge (" << a << "," << b << ") does not exist in the triangle list"; return e.str(); }
            unsigned f1 = ed.f1(), f2 = ed.f2();
            if (!((f1 == i1->second && f2 == i2->second) || (f1 == i2->second && f2 == i1->second))) { e << "T6: stored edge (" << a << "," << b << ") lists faces " << f1 << "," << f2 << " but triangles give " << i1->second << "," << i2->second; return e.str(); }
        }
    }
    // T7 positive enclosed volume
    CellView v = view_of(c); Geo g = geometry(v);
    if (o.t7_volume) {
        double L = (g.bmax - g.bmin).norm();
        bool bad = !(g.volume > 1e-12 * L * L * L);
        if (bad && o.volume_before >= 0) bad = (o.volume_before >= o.t7_min_resolved) || (g.volume < -0.5 * o.volume_before && o.volume_before >= 0.2 * o.t7_min_resolved && o.volume_before > 0);
        if (bad) { e << "T7: signed enclosed volume " << g.volume << " not positive (diameter " << L << ", before the operation " << o.volume_before << ")"; return e.str(); }
    }
    // T8 cached normals / areas
    for (size_t i = 0; i < nf; i++) {
        if (!F[i].is_used()) continue;
        if (!o.t8_all_faces && !o.t8_faces.count((unsigned)i)) continue;
        V3 a = v.pos[v.tri[i][0]], b = v.pos[v.tri[i][1]], d = v.pos[v.tri[i][2]];
        V3 w = (b - a).cross(d - a); double ar = 0.5 * w.norm(); V3 cn(F[i].get_normal());
        double scale = std::max({(b - a).n2(), (d - a).n2(), (d - b).n2()});
        if (ar > 1e-9 * scale) {
            if (!(cn.dot(w) > 0)) { e << "T8: cached normal of face " << i << " points against its winding"; return e.str(); }
            if (std::fabs(F[i].get_area() - ar) > 1e-9 * scale + 1e-12 * ar) { e << "T8: cached area of face " << i << " is " << F[i].get_area() << ", recomputed " << ar; return e.str(); }
        }
    }
    return "";
}

// ---- oracle G pieces
// closest point on triangle by projection + edge clamping (not the Ericson region code)
inline V3 closest_on_segment(const V3& p, const V3& a, const V3& b) { V3 ab = b - a; double l2 = ab.n2(); if (l2 <= 0) return a; double t = (p - a).dot(ab) / l2; t = t < 0 ? 0 : (t > 1 ? 1 : t); return a + ab * t; }
inline V3 closest_on_triangle(const V3& p, const V3& a, const V3& b, const V3& c) {
    V3 n = (b - a).cross(c - a); double n2 = n.n2();
    if (n2 > 0) {
        V3 q = p - n * ((p - a).dot(n) / n2);
        // inside test with edge functions
        double e0 = (b - a).cross(q - a).dot(n), e1 = (c - b).cross(q - b).dot(n), e2 = (a - c).cross(q - c).dot(n);
        if (e0 >= 0 && e1 >= 0 && e2 >= 0) return q;
    }
    V3 c0 = closest_on_segment(p, a, b), c1 = closest_on_segment(p, b, c), c2 = closest_on_segment(p, c, a);
    double d0 = (p - c0).n2(), d1 = (p - c1).n2(), d2 = (p - c2).n2();
    if (d0 <= d1 && d0 <= d2) return c0; if (d1 <= d2) return c1; return c2;
}

// point inside a closed mesh by ray parity with three independent random-ish directions (majority)
inline bool point_inside(const CellView& v, const V3& p) {
    static const V3 dirs[3] = {V3(0.5377, 0.8339, -0.1253).unit(), V3(-0.2259, 0.3188, 0.9205).unit(), V3(0.8622, -0.4307, 0.2669).unit()};
    int votes = 0;
    for (int k = 0; k < 3; k++) {
        int cnt = 0; const V3& d = dirs[k];
        for (size_t i = 0; i < v.tri.size(); i++) { if (!v.fused[i]) continue;
            V3 a = v.pos[v.tri[i][0]], b = v.pos[v.tri[i][1]], c = v.pos[v.tri[i][2]];
            V3 e1 = b - a, e2 = c - a, h = d.cross(e2); double det = e1.dot(h); if (std::fabs(det) < 1e-300) continue;
            double inv = 1 / det; V3 s = p - a; double u = s.dot(h) * inv; if (u < 0 || u > 1) continue; V3 q = s.cross(e1); double w = d.dot(q) * inv; if (w < 0 || u + w > 1) continue;
            double t = e2.dot(q) * inv; if (t > 0) cnt++; }
        if (cnt & 1) votes++;
    }
    return votes >= 2;
}

inline double dist_to_mesh(const CellView& v, const V3& p, V3* closest = nullptr, int* face = nullptr) {
    double best = 1e300;
    for (size_t i = 0; i < v.tri.size(); i++) { if (!v.fused[i]) continue; V3 q = closest_on_triangle(p, v.pos[v.tri[i][0]], v.pos[v.tri[i][1]], v.pos[v.tri[i][2]]); double d = (p - q).n2(); if (d < best) { best = d; if (closest) *closest = q; if (face) *face = (int)i; } }
    return std::sqrt(best);
}

// fingerprint of a cell: ids, positions/momenta bit patterns, triangles, labels
inline void hash_cell(Fnv& h, cell& c) {
    h.add(c.get_id()); h.add(c.get_local_id());
    auto& N = cell_tester::nodes(c); auto& F = cell_tester::faces(c);
    h.add(N.size()); h.add(F.size());
    for (auto& n : N) { h.add(n.is_used()); if (!n.is_used()) continue; h.addd(n.pos().dx()); h.addd(n.pos().dy()); h.addd(n.pos().dz());
#if DYNAMIC_MODEL_INDEX == 0
        h.addd(n.momentum().dx()); h.addd(n.momentum().dy()); h.addd(n.momentum().dz());
#endif
    }
    for (auto& f : F) { h.add(f.is_used()); if (!f.is_used()) continue; h.add(cell_tester::fn1(f)); h.add(cell_tester::fn2(f)); h.add(cell_tester::fn3(f)); h.add(f.get_local_face_type_id()); }
}

} // namespace hz
