// W2F: internal forces (C02) on states reached by simulated histories: conservation of momentum and angular
// momentum per force term, reference force law for pressure and tension/elasticity, rigid-motion equivariance.
#include "harness/tissue.hpp"

using namespace hz;

namespace {

struct Cfg { const char* name; double K, tension[3], ka, bend, angle; };

static void set_type(cell_type_parameters& t, const Cfg& c, sim::Rng& r) {
    t.bulk_modulus_ = c.K; t.max_pressure_ = 1e300; t.area_elasticity_modulus_ = c.ka; t.angle_regularization_factor_ = c.angle; t.avg_growth_rate_ = 0; t.std_growth_rate_ = 0; t.min_vol_ = 0; t.target_isoperimetric_ratio_ = 150;
    for (size_t f = 0; f < t.face_types_.size(); f++) { t.face_types_[f].surface_tension_ = c.tension[f % 3]; t.face_types_[f].bending_modulus_ = c.bend * (1 + 0.5 * f); }
}

static std::vector<V3> forces_of(cell& c) { std::vector<V3> f; for (auto& n : cell_tester::nodes(c)) f.push_back(n.is_used() ? V3(n.force()) : V3()); return f; }
static void zero_forces(cell& c) { for (auto& n : cell_tester::nodes(c)) cell_tester::force(n).reset(); }

RunResult run_w2f(const Plan& pl) {
    RunResult res; sim::RunConfig cfg = config_from(pl); cfg.step_budget = 1500000000ull; sim::clear_faults(); sim::begin_run(cfg);
    Fnv log;
    try {
        sim::Rng r(pl.seed * 7 + 3);
        Tissue T = build_tissue(pl);
        double lmin = pl.get("lmin", 1e-6); local_mesh_refiner lmr(lmin, 3 * lmin, pl.geti("swap", 0) != 0);
        // history: deformations and real refinement (slivers, degree-3 vertices, unused slots)
        for (const Op& op : pl.ops) {
            cell_ptr c = T.cells[(size_t)op.arg(0) % T.cells.size()];
            try {
                if (op.name == "refine") lmr.refine_mesh(c);
                else if (op.name == "stretch") { Geo g = geometry(view_of(*c)); V3 ax = V3(op.arg(1), op.arg(2), op.arg(3)).unit(); double f = op.arg(4, 1); for (auto& n : cell_tester::nodes(*c)) if (n.is_used()) { V3 p(n.pos()); V3 d = p - g.centroid_area; p = p + ax * (d.dot(ax) * (f - 1)); cell_tester::pos(n).reset(p.x, p.y, p.z); } c->update_all_face_normals_and_areas(); }
                else if (op.name == "noise") { sim::Rng nr((uint64_t)op.arg(2)); for (auto& n : cell_tester::nodes(*c)) if (n.is_used()) { V3 p = V3(n.pos()) + random_unit(nr) * (nr.uni() * op.arg(1) * lmin); cell_tester::pos(n).reset(p.x, p.y, p.z); } c->update_all_face_normals_and_areas(); }
                else if (op.name == "labels") { sim::Rng nr((uint64_t)op.arg(1)); for (auto& f : cell_tester::faces(*c)) if (f.is_used()) f.set_face_type_id((unsigned short)nr.below(3)); }
            } catch (std::exception&) { res.probes.hit("history_op_threw"); }
        }
        static const Cfg cfgs[] = {
            {"pressure", 2.5e3, {0, 0, 0}, 0, 0, 0}, {"tension", 0, {1e-3, 7e-4, 2e-3}, 0, 0, 0}, {"tension_with_zero", 0, {0, 1e-3, 5e-4}, 0, 0, 0},
            {"area_elasticity", 0, {0, 0, 0}, 1e-15, 0, 0}, {"tension+elasticity", 0, {1e-3, 0, 8e-4}, 2e-15, 0, 0}, {"angle_regularisation", 0, {0, 0, 0}, 0, 0, 1e-18},
            {"bending", 0, {0, 0, 0}, 0, 2e-18, 0}, {"all", 2.5e3, {1e-3, 8e-4, 1.2e-3}, 1e-15, 2e-18, 1e-18}};
        for (auto& cp : T.cells) {
            if (cp->is_static()) continue;
            Geo g0 = geometry(view_of(*cp)); if (!(g0.volume > 0)) { res.probes.hit("degenerate_cell_skipped"); continue; }
            double L = (g0.bmax - g0.bmin).norm();
            for (const Cfg& c : cfgs) {
                if (!res.viol.empty()) break;
                // a copy of the cell with its own parameter set
                auto cc = std::make_shared<epithelial_cell>(*static_cast<epithelial_cell*>(cp.get())); cc->set_face_owner_cell();
                auto t = std::make_shared<cell_type_parameters>(*cp->get_cell_type()); set_type(*t, c, r); cell_tester::type(*cc) = t;
                cc->set_target_volume(g0.volume * pl.get("tv_factor", 1.1));
                zero_forces(*cc); cc->apply_internal_forces(1e-7); res.sim_iterations++;
                std::vector<V3> F = forces_of(*cc); CellView v = view_of(*cc); Geo g = geometry(v);
                double Fabs = 0; V3 Fs, Ts; for (size_t i = 0; i < F.size(); i++) if (v.nused[i]) { Fabs += F[i].norm(); Fs += F[i]; Ts += (v.pos[i] - g.centroid_area).cross(F[i]); }
                std::ostringstream who; who << "cell " << cp->get_id() << ", term '" << c.name << "': ";
                bool finite = std::isfinite(Fabs); if (!finite) { res.fail("C02", std::string("finite.") + c.name, who.str() + "non-finite force"); break; }
                // natural force scale of the active terms: below 1e-12 of it the field is rounding noise (e.g. angle regularisation of an all-equilateral mesh)
                size_t nfaces = 0; for (char u : v.fused) nfaces += u; double edge = L / std::max(1.0, std::sqrt((double)nfaces / 8));
                double S = c.K * L * L + std::max({c.tension[0], c.tension[1], c.tension[2]}) * L + c.ka / L + (c.bend + c.angle) * nfaces / edge;
                bool sliver = false; double minq = 1; for (size_t f = 0; f < v.tri.size(); f++) if (v.fused[f]) { V3 a = v.pos[v.tri[f][0]], b = v.pos[v.tri[f][1]], d = v.pos[v.tri[f][2]]; double e2 = std::max({(b - a).n2(), (d - a).n2(), (d - b).n2()}); double q = 0.5 * (b - a).cross(d - a).norm() / (0.433 * e2); minq = std::min(minq, q); if (q < 1e-3) sliver = true; }   // (a needle: area below a thousandth of the equilateral triangle on its longest edge)
                const double ctol = 1e-9 / std::max(minq, 1e-6);     // cotangents and 1/area amplify rounding on thin triangles
                if (sliver && c.bend > 0) { res.probes.hit("bending_skipped_sliver_triangle"); continue; }   // hinge forces scale with 1/area and with sin(acos(n1.n2)): on a needle next to a flat hinge the rounding of acos near 1 (~1.5e-8 rad) decides the whole force
                if (Fabs > 0 && Fabs < 1e-9 * S) { res.probes.hit("force_field_is_rounding_noise"); continue; }
                if (Fabs > 0) {
                    res.probes.hit(std::string("checked_") + c.name);
                    if (Fs.norm() > ctol * Fabs) { who << "net force " << Fs.norm() << " vs sum of magnitudes " << Fabs; res.fail("C02", std::string("net_force.") + c.name, who.str()); break; }
                    if (Ts.norm() > ctol * Fabs * L) { who << "net torque " << Ts.norm() << " vs F*L " << Fabs * L; res.fail("C02", std::string("net_torque.") + c.name, who.str()); break; }
                }
                // reference force law (oracle M(a)), own gradients
                bool is_p = !strcmp(c.name, "pressure"), is_t = !strncmp(c.name, "tension", 7) || !strcmp(c.name, "area_elasticity");
                if (is_p || is_t) {
                    std::vector<V3> R(F.size()); double area = 0; for (size_t f = 0; f < v.tri.size(); f++) if (v.fused[f]) area += 0.5 * (v.pos[v.tri[f][1]] - v.pos[v.tri[f][0]]).cross(v.pos[v.tri[f][2]] - v.pos[v.tri[f][0]]).norm();
                    double P = -c.K * std::log(g.volume / cc->get_target_volume()); double At = std::cbrt(150 * g.volume * g.volume); double mef = (c.ka / At) * (area / At - 1);
                    for (size_t f = 0; f < v.tri.size(); f++) if (v.fused[f]) { unsigned i = v.tri[f][0], j = v.tri[f][1], k = v.tri[f][2]; V3 a = v.pos[i], b = v.pos[j], d = v.pos[k];
                        if (is_p) { R[i] += b.cross(d) * (P / 6); R[j] += d.cross(a) * (P / 6); R[k] += a.cross(b) * (P / 6); }
                        else { V3 w = (b - a).cross(d - a); double nrm = w.norm(); if (nrm == 0) continue; V3 n = w / nrm; double geff = c.tension[v.ftype[f] % 3] + mef; R[i] += n.cross(d - b) * (-0.5 * geff); R[j] += n.cross(a - d) * (-0.5 * geff); R[k] += n.cross(b - a) * (-0.5 * geff); } }
                    double Rabs = 0, worst = 0; size_t wi = 0; for (size_t i = 0; i < F.size(); i++) if (v.nused[i]) { Rabs += R[i].norm(); double e = (F[i] - R[i]).norm(); if (e > worst) { worst = e; wi = i; } }
                    double D = std::max({std::fabs(g.centroid_area.x), std::fabs(g.centroid_area.y), std::fabs(g.centroid_area.z)});
                    double fmx = 0; for (size_t i = 0; i < F.size(); i++) if (v.nused[i]) fmx = std::max(fmx, std::max(F[i].norm(), R[i].norm()));
                    // ln(V/Vt) and (A/At - 1) cancel digits when the cell is close to its target: the rounding of the volume / area sums
                    // (relative ~1e-16 (1+D/L)^3 for sums about the origin) is amplified by 1/|ln(V/Vt)| resp. 1/|A/At - 1| in the force
                    double cancel = is_p ? std::fabs(std::log(g.volume / cc->get_target_volume())) : (c.ka > 0 ? std::max(std::fabs(area / At - 1) * std::fabs(mef) / std::max(std::fabs(mef) + std::max({c.tension[0], c.tension[1], c.tension[2]}) / 1.0, 1e-300), 0.0) : 1.0);
                    double amp = 1.0 / std::max(cancel, 1e-12);
                    double reltol = 1e-6 + 1e-13 * std::pow(1 + D / L, 3) * amp;
                    if (reltol > 1e-3) { res.probes.hit("force_law_skipped_at_cancellation"); }
                    double tol = reltol * fmx + 1e-300;
                    if (reltol > 1e-3) tol = 1e300;
                    if (worst > tol) { who << "force on node " << wi << " differs from " << (is_p ? "P dV/dx" : "-sum gamma_eff dA/dx") << " by " << worst << " (|f| " << F[wi].norm() << ", reference " << R[wi].norm() << ")"; res.fail("C02", std::string("force_law.") + c.name, who.str()); break; }
                    res.probes.hit("force_law_checked");
                }
                // rigid motion: rotate + translate the copy in place and recompute (caches are then stale until recomputed by the call)
                bool degenerate_tri = false; for (size_t f = 0; f < v.tri.size(); f++) if (v.fused[f]) { V3 a = v.pos[v.tri[f][0]], b = v.pos[v.tri[f][1]], d = v.pos[v.tri[f][2]]; double e2 = std::max({(b - a).n2(), (d - a).n2(), (d - b).n2()}); if (0.5 * (b - a).cross(d - a).norm() < 1e-9 * e2) degenerate_tri = true; }
                if (degenerate_tri) res.probes.hit("rigid_motion_skipped_degenerate_triangle");    // the area gradient is undefined for a zero-area triangle: any rounding decides its direction
                // the bending term is switched off hinge by hinge beyond 135 degrees and changes branch between convex and concave hinges: a hinge
                // sitting on one of these two discontinuities may fall on either side after the rotation is rounded
                bool hinge_at_threshold = false;
                if (c.bend > 0 && !degenerate_tri) { std::map<std::pair<unsigned, unsigned>, std::vector<size_t>> eh; for (size_t f = 0; f < v.tri.size(); f++) if (v.fused[f]) for (int q = 0; q < 3; q++) { unsigned a = v.tri[f][q], b = v.tri[f][(q + 1) % 3]; eh[{std::min(a, b), std::max(a, b)}].push_back(f); }
                    for (auto& kv : eh) { if (kv.second.size() != 2) continue; auto nrm = [&](size_t f) { V3 w = (v.pos[v.tri[f][1]] - v.pos[v.tri[f][0]]).cross(v.pos[v.tri[f][2]] - v.pos[v.tri[f][0]]); return w / std::max(w.norm(), 1e-300); }; V3 n1 = nrm(kv.second[0]), n2 = nrm(kv.second[1]); double dt_ = std::max(-1.0, std::min(1.0, n1.dot(n2))); double th = std::acos(dt_);
                        unsigned opp = 0; for (int q = 0; q < 3; q++) { unsigned w = v.tri[kv.second[1]][q]; if (w != kv.first.first && w != kv.first.second) opp = w; } V3 e2 = v.pos[opp] - v.pos[kv.first.first]; double side = std::fabs(e2.dot(n1)) / std::max(e2.norm(), 1e-300);
                        if (std::fabs(th - 135.0 * M_PI / 180.0) < 1e-6 || (side < 1e-7 && th > 1e-6)) hinge_at_threshold = true; } }
                if (hinge_at_threshold) res.probes.hit("rigid_motion_skipped_hinge_at_discontinuity");
                if (pl.geti("rigid", 1) && Fabs > 0 && !degenerate_tri && !hinge_at_threshold) {
                    M33 Rm = random_rotation(r); V3 tr = random_unit(r) * (L * r.uni(0, 3)); V3 ctr = g.centroid_area;
                    for (auto& n : cell_tester::nodes(*cc)) if (n.is_used()) { V3 p = Rm * (V3(n.pos()) - ctr) + ctr + tr; cell_tester::pos(n).reset(p.x, p.y, p.z); }
                    zero_forces(*cc); cc->apply_internal_forces(0.0); res.sim_iterations++;
                    std::vector<V3> F2 = forces_of(*cc); double worst = 0; for (size_t i = 0; i < F.size(); i++) if (v.nused[i]) worst = std::max(worst, (F2[i] - Rm * F[i]).norm());
                    double fmax = 0; for (auto& f : F) fmax = std::max(fmax, f.norm());
                    if (getenv("W2F_DEBUG") && worst > 1e-6 / std::max(minq, 1e-6) * fmax) { size_t wi = 0; double ww = 0; for (size_t i = 0; i < F.size(); i++) if (v.nused[i]) { double e = (F2[i] - Rm * F[i]).norm(); if (e > ww) { ww = e; wi = i; } }
                        fprintf(stderr, "DEBUG term %s minq %.3g worst node %zu |F| %.4g |F2| %.4g dev %.4g\n", c.name, minq, wi, F[wi].norm(), F2[wi].norm(), ww);
                        CellView v2 = view_of(*cc); for (size_t f = 0; f < v.tri.size(); f++) if (v.fused[f] && (v.tri[f][0] == wi || v.tri[f][1] == wi || v.tri[f][2] == wi)) { auto q = [&](const CellView& w) { V3 a = w.pos[w.tri[f][0]], b = w.pos[w.tri[f][1]], d = w.pos[w.tri[f][2]]; double e2 = std::max({(b - a).n2(), (d - a).n2(), (d - b).n2()}); return 0.5 * (b - a).cross(d - a).norm() / (0.433 * e2); }; fprintf(stderr, "  face %zu quality %.3g -> %.3g\n", f, q(v), q(v2)); }
                        for (size_t f = 0; f < v.tri.size(); f++) if (v.fused[f]) for (size_t f2 = f + 1; f2 < v.tri.size(); f2++) if (v.fused[f2]) { int sh = 0; bool haswi = false; for (int a = 0; a < 3; a++) for (int b = 0; b < 3; b++) if (v.tri[f][a] == v.tri[f2][b]) sh++; for (int a = 0; a < 3; a++) if (v.tri[f][a] == wi || v.tri[f2][a] == wi) haswi = true; if (sh == 2 && haswi) { auto nrm = [&](const CellView& w, size_t g) { V3 x = (w.pos[w.tri[g][1]] - w.pos[w.tri[g][0]]).cross(w.pos[w.tri[g][2]] - w.pos[w.tri[g][0]]); return x / std::max(x.norm(), 1e-300); }; fprintf(stderr, "  hinge %zu/%zu angle %.9f deg -> %.9f deg\n", f, f2, std::acos(std::max(-1.0, std::min(1.0, nrm(v, f).dot(nrm(v, f2))))) * 180 / M_PI, std::acos(std::max(-1.0, std::min(1.0, nrm(v2, f).dot(nrm(v2, f2))))) * 180 / M_PI); } } }
                    double rt = 1e-6 / std::max(minq, 1e-6);
                    { double Dm = std::max({std::fabs(ctr.x), std::fabs(ctr.y), std::fabs(ctr.z)}) + tr.norm(); double lnv = std::fabs(std::log(g.volume / cc->get_target_volume())); double area2 = 0; for (size_t f = 0; f < v.tri.size(); f++) if (v.fused[f]) area2 += 0.5 * (v.pos[v.tri[f][1]] - v.pos[v.tri[f][0]]).cross(v.pos[v.tri[f][2]] - v.pos[v.tri[f][0]]).norm(); double At2 = std::cbrt(150 * g.volume * g.volume);
                      double amp2 = std::max(c.K > 0 ? 1.0 / std::max(lnv, 1e-12) : 0.0, c.ka > 0 ? 1.0 / std::max(std::fabs(area2 / At2 - 1), 1e-12) : 0.0); rt = std::max(rt, 1e-13 * std::pow(1 + Dm / L, 3) * amp2); }
                    if (rt > 1e-3) { res.probes.hit("rigid_motion_skipped_at_cancellation"); } else
                    if (worst > rt * fmax) { who << "after a rigid motion of the cell the force field is not the rotated field (max deviation " << worst << ", max force " << fmax << ")"; res.fail("C02", std::string("rigid_motion.") + c.name, who.str()); break; }
                    res.probes.hit("rigid_motion_checked");
                }
                for (auto& f : F) { log.addd(f.x); log.addd(f.y); log.addd(f.z); }
            }
        }
    } catch (std::exception& e) { res.fail("C10", "harness.unexpected_exception", e.what()); }
    res.st = sim::end_run(); res.fingerprint = log.h; res.nontrivial = res.sim_iterations > 0;
    return res;
}

Plan gen_w2f(uint64_t seed, const std::string& tier, const std::string& focus) {
    Plan pl; pl.workload = "w2f"; pl.seed = seed; sim::Rng r(seed * 179424673 + 1);
    const double R = 5e-6; pl.p["lmin"] = R * r.uni(0.15, 0.4); int n = r.range(1, 3); pl.p["ncells"] = n; pl.p["swap"] = r.coin(0.5); pl.p["tv_factor"] = r.uni(0.8, 1.3);
    V3 off; if (r.coin(0.4)) off = random_unit(r) * (R * std::pow(10.0, r.range(0, 2)));
    for (int k = 0; k < n; k++) { std::string pre = "c" + std::to_string(k) + "_"; pl.p[pre + "kind"] = 0; pl.p[pre + "shape"] = (int)r.below(SH_COUNT); pl.p[pre + "res"] = r.coin(0.7) ? 1 : 2; pl.p[pre + "r"] = R * r.uni(0.6, 1.4); pl.p[pre + "x"] = 3.2 * R * k + off.x; pl.p[pre + "y"] = off.y; pl.p[pre + "z"] = off.z; pl.p[pre + "seed"] = (double)r.below(1000000); }
    pl.p["jitter"] = r.coin(0.5) ? 0.05 : 0.0;
    int nops = r.range(0, 8);
    for (int i = 0; i < nops; i++) { double u = r.uni(), ci = (double)r.below(n); if (u < 0.3) { V3 a = random_unit(r); static const double fs[] = {0.5, 0.7, 1.5, 2.0}; pl.ops.push_back({"stretch", {ci, a.x, a.y, a.z, fs[r.below(4)]}}); } else if (u < 0.5) pl.ops.push_back({"noise", {ci, r.uni(0.02, 0.2), (double)r.below(1u << 30)}}); else if (u < 0.65) pl.ops.push_back({"labels", {ci, (double)r.below(1u << 30)}}); else pl.ops.push_back({"refine", {ci}}); }
    pl.ops.push_back({"labels", {0, (double)r.below(1u << 30)}});
    return pl;
}

Register reg_w2f({"w2f", gen_w2f, run_w2f, nullptr});
}
